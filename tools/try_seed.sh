#!/bin/sh
# usage: try_seed.sh <seed-name> <property> [tier]  -- applies /verif/seeded/<name>/patch.diff to /repo, runs the check, reverts.
name=$1; prop=$2; tier=${3:-quick}
cd /verif || exit 2
git -C /repo diff --quiet || { echo "try_seed: /repo has uncommitted changes"; exit 2; }
git -C /repo apply --whitespace=nowarn /verif/seeded/$name/patch.diff || { echo "try_seed: patch does not apply"; exit 2; }
MC_NO_EVIDENCE=1 ./check check $prop --tier $tier > /tmp/try_seed.$name.$prop.log 2>&1
rc=$?
git -C /repo checkout -- .
echo "seed=$name prop=$prop tier=$tier rc=$rc $(grep -c '^VIOLATION' /tmp/try_seed.$name.$prop.log) violation line(s)"
grep -A2 '^VIOLATION' /tmp/try_seed.$name.$prop.log | head -8
exit 0

#!/usr/bin/env python3
"""Run the repository's pinned suite (guard off: plain build) in <repo> and compare with BASELINE.json's stable_pass list.
usage: baseline.py [repo_dir]   exit 0 iff every stable test passes."""
import json, os, subprocess, sys
repo = sys.argv[1] if len(sys.argv) > 1 else "/repo"
base = json.load(open("/root/.vp/BASELINE.json"))
stable = set(base["stable_pass"])
env = dict(os.environ, GOFLAGS="-mod=mod", GOPROXY="off", GOSUMDB="off", GOTOOLCHAIN="local")
passed = set()
for mod in (".", "analysis_test"):
    d = os.path.join(repo, mod)
    r = subprocess.run(["go", "test", "-mod=mod", "-json", "-vet=off", "-count=1", "-timeout", "25m", "./..."], cwd=d, env=env, stdout=subprocess.PIPE, stderr=subprocess.DEVNULL, text=True)
    for ln in r.stdout.splitlines():
        try:
            e = json.loads(ln)
        except ValueError:
            continue
        if e.get("Action") == "pass" and e.get("Test"):
            passed.add("%s::%s" % (e["Package"], e["Test"]))
missing = sorted(stable - passed)
print("baseline: %d stable tests, %d passed, %d missing" % (len(stable), len(stable & passed), len(missing)))
for m in missing[:20]:
    print("  MISSING " + m)
sys.exit(1 if missing else 0)

#!/bin/sh
# usage: try_seed_wt.sh <seed-name> <property> [tier]  -- like try_seed.sh but on a scratch worktree (MC_REPO), /repo untouched; no RESULTS.json update
name=$1; prop=$2; tier=${3:-quick}
wt=$(mktemp -d /tmp/tryseed-XXXXXX); rmdir $wt
git -C /repo worktree add -q --detach $wt HEAD || exit 2
git -C $wt apply --whitespace=nowarn /verif/seeded/$name/patch.diff || { echo "patch does not apply"; git -C /repo worktree remove --force $wt; exit 2; }
cd /verif && MC_REPO=$wt MC_NO_EVIDENCE=1 ./check check $prop --tier $tier > /tmp/try_seed.$name.$prop.log 2>&1
rc=$?
git -C /repo worktree remove --force $wt; rm -rf $wt
echo "seed=$name prop=$prop tier=$tier rc=$rc $(grep -c '^VIOLATION' /tmp/try_seed.$name.$prop.log) violation line(s)"
grep -A2 '^VIOLATION' /tmp/try_seed.$name.$prop.log | cut -c1-300 | head -9

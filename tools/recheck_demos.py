#!/usr/bin/env python3
"""Re-confirm the demonstrations of kept seeded changes on /repo's current HEAD (after a fix: commit, a seeded change may
no longer apply, or may have been neutralised by the repair). For every seed: scratch worktree of HEAD, apply the patch,
run the demonstration (must fail), revert the patch, run it again (must pass). The baseline is not re-run here.
usage: recheck_demos.py [--jobs J] [seed ...]   -> prints one line per seed; writes /verif/seeded/DEMOS_AT_HEAD.json"""
import concurrent.futures, json, os, shutil, subprocess, sys, tempfile
V = "/verif"
env = dict(os.environ, GOFLAGS="-mod=mod", GOPROXY="off", GOSUMDB="off", GOTOOLCHAIN="local")
args = sys.argv[1:]
jobs = 3
if args[:1] == ["--jobs"]:
    jobs = int(args[1]); args = args[2:]
seeds = args or sorted(d for d in os.listdir(V + "/seeded") if os.path.isdir(V + "/seeded/" + d))
head = subprocess.run(["git", "-C", "/repo", "rev-parse", "--short", "HEAD"], stdout=subprocess.PIPE, text=True).stdout.strip()

def one(seed):
    d = os.path.join(V, "seeded", seed)
    demo = next((os.path.join(d, f) for f in os.listdir(d) if f.endswith("_test.go")), None)
    if demo is None:
        return seed, "no-demo"
    meta = json.load(open(os.path.join(d, "meta.json")))
    wt = tempfile.mkdtemp(prefix="demowt-"); os.rmdir(wt)
    try:
        subprocess.run(["git", "-C", "/repo", "worktree", "add", "-q", "--detach", wt, "HEAD"], check=True)
        r = subprocess.run(["git", "-C", wt, "apply", "--whitespace=nowarn", os.path.join(d, "patch.diff")], stdout=subprocess.PIPE, stderr=subprocess.STDOUT, text=True)
        if r.returncode != 0:
            return seed, "patch-does-not-apply"
        shutil.copy2(demo, os.path.join(wt, os.path.basename(demo)))
        cmd = ["go", "test", "-vet=off", "-count=1", "-run", "SeedDemo", "."]
        e2 = dict(env)
        if "-race" in meta.get("demo_cmd", ""):
            cmd.insert(2, "-race"); e2["CGO_ENABLED"] = "1"
        r1 = subprocess.run(cmd, cwd=wt, env=e2, stdout=subprocess.PIPE, stderr=subprocess.STDOUT, text=True, timeout=900)
        subprocess.run(["git", "-C", wt, "apply", "-R", "--whitespace=nowarn", os.path.join(d, "patch.diff")], check=True)
        r2 = subprocess.run(cmd, cwd=wt, env=e2, stdout=subprocess.PIPE, stderr=subprocess.STDOUT, text=True, timeout=900)
        if r1.returncode != 0 and r2.returncode == 0:
            return seed, "ok"
        return seed, "demo with patch rc=%d, without rc=%d" % (r1.returncode, r2.returncode)
    except subprocess.TimeoutExpired:
        return seed, "timeout"
    finally:
        subprocess.run(["git", "-C", "/repo", "worktree", "remove", "--force", wt], stdout=subprocess.DEVNULL, stderr=subprocess.DEVNULL)
        shutil.rmtree(wt, ignore_errors=True)

res = {}
with concurrent.futures.ThreadPoolExecutor(jobs) as ex:
    for seed, out in ex.map(one, seeds):
        res[seed] = out
        print("%-16s %s" % (seed, out)); sys.stdout.flush()
p = V + "/seeded/DEMOS_AT_HEAD.json"
allres = json.load(open(p)) if os.path.exists(p) else {}
allres.setdefault(head, {}).update(res)
json.dump(allres, open(p, "w"), indent=1, sort_keys=True)
print("head %s: %d seeds, not ok: %s" % (head, len(res), sorted(s for s, o in res.items() if o != "ok")))

#!/usr/bin/env python3
"""Run kept seeded changes against the checks WITHOUT touching /repo: each seed is applied to its own scratch
worktree of /repo's HEAD (removed afterwards) and the check is pointed at it through MC_REPO.

usage: seed_matrix.py [--tier quick|thorough] [--jobs J] [--workers W] [--props C01,C02 | --own] [seed ...]
  default: every seed under /verif/seeded against the check of its own property (meta.json "property"),
           plus the extra checks listed in meta.json "also" (if any).
Writes /verif/seeded/RESULTS.json (seed -> property -> {rc, violations, signatures, wall_s}) and prints one line each.
No evidence file is written by these runs (MC_NO_EVIDENCE=1)."""
import concurrent.futures, json, os, re, shutil, subprocess, sys, tempfile, time

V = "/verif"
args = sys.argv[1:]
tier, jobs, workers, props_override, seeds, sdir = "quick", 2, 8, None, [], "seeded"
while args:
    a = args.pop(0)
    if a == "--tier":
        tier = args.pop(0)
    elif a == "--jobs":
        jobs = int(args.pop(0))
    elif a == "--workers":
        workers = int(args.pop(0))
    elif a == "--props":
        props_override = args.pop(0).split(",")
    elif a == "--dir":
        sdir = args.pop(0)  # "benign": property-preserving changes, every check is expected to exit 0
    else:
        seeds.append(a)
if not seeds:
    seeds = sorted(d for d in os.listdir(os.path.join(V, sdir)) if os.path.isdir(os.path.join(V, sdir, d)))


def one(seed):
    d = os.path.join(V, sdir, seed)
    meta = json.load(open(os.path.join(d, "meta.json")))
    if "neutralised_by" in meta and not props_override:
        # a later fix: commit made the code robust to this seeded change: its demonstration passes with the patch applied
        return seed, {"neutralised": meta["neutralised_by"]["commit"]}
    props = props_override or ([meta["property"]] + list(meta.get("also", [])) if "property" in meta else list(meta.get("touches", [])))
    wt = tempfile.mkdtemp(prefix="seedmx-")
    os.rmdir(wt)
    out = {}
    try:
        subprocess.run(["git", "-C", "/repo", "worktree", "add", "-q", "--detach", wt, "HEAD"], check=True)
        r = subprocess.run(["git", "-C", wt, "apply", "--whitespace=nowarn", os.path.join(d, "patch.diff")], stdout=subprocess.PIPE, stderr=subprocess.STDOUT, text=True)
        if r.returncode != 0:
            return seed, {"error": "patch does not apply: " + r.stdout[-300:]}
        for p in props:
            t0 = time.time()
            env = dict(os.environ, MC_REPO=wt, MC_NO_EVIDENCE="1", MC_WORKERS=str(workers))
            r = subprocess.run([os.path.join(V, "check"), "check", p, "--tier", tier], cwd=V, env=env, stdout=subprocess.PIPE, stderr=subprocess.STDOUT, text=True)
            sigs = re.findall(r"^  signature: (.*)$", r.stdout, re.M)
            out[p] = {"rc": r.returncode, "violations": len(re.findall(r"^VIOLATION", r.stdout, re.M)), "signatures": [s[:160] for s in sigs[:4]], "wall_s": round(time.time() - t0, 1)}
            if r.returncode == 2:
                out[p]["tail"] = r.stdout[-600:]
    finally:
        subprocess.run(["git", "-C", "/repo", "worktree", "remove", "--force", wt], stdout=subprocess.DEVNULL, stderr=subprocess.DEVNULL)
        shutil.rmtree(wt, ignore_errors=True)
    return seed, out


res_path = os.path.join(V, sdir, "RESULTS.json")
allres = json.load(open(res_path)) if os.path.exists(res_path) else {}
with concurrent.futures.ThreadPoolExecutor(jobs) as ex:
    for seed, out in ex.map(one, seeds):
        cur = allres.setdefault(seed, {})
        if "neutralised" in out:
            cur["neutralised_by"] = out["neutralised"]
            print("%-14s neutralised by fix %s (no longer a property-breaking change; not run)" % (seed, out["neutralised"]))
            continue
        if "error" in out:
            cur["error"] = out["error"]
            print("%-14s ERROR %s" % (seed, out["error"]))
            continue
        for p, o in out.items():
            cur[p + ":" + tier] = o
            print("%-14s %s %-8s rc=%d violations=%d %5.0fs  %s" % (seed, p, tier, o["rc"], o["violations"], o["wall_s"], (o["signatures"] or [""])[0][:100]))
        sys.stdout.flush()
json.dump(allres, open(res_path, "w"), indent=1, sort_keys=True)
missed = [s for s in seeds if "neutralised_by" not in allres.get(s, {}) and not any(o.get("rc") == 1 for k, o in allres.get(s, {}).items() if isinstance(o, dict) and k.endswith(":" + tier))]
if sdir == "benign":
    alarms = [s for s in seeds if any(o.get("rc") != 0 for k, o in allres.get(s, {}).items() if isinstance(o, dict) and k.endswith(":" + tier))]
    print("benign changes run: %d, raising an alarm (must be empty): %s" % (len(seeds), alarms))
else:
    print("seeds run: %d, not caught by any check run here: %s" % (len(seeds), missed))

#!/usr/bin/env python3
"""Confirm a seeded change delivered by a sub-agent: in a fresh scratch worktree of /repo's HEAD,
(1) the patch applies and the stable baseline still passes, (2) the demonstration fails with the patch,
(3) the demonstration passes without it. On success the change is kept as /verif/seeded/<name>/.
usage: verify_seed.py <seed_dir> <name>"""
import json, os, shutil, subprocess, sys, tempfile
src, name = sys.argv[1], sys.argv[2]
V = "/verif"
env = dict(os.environ, GOFLAGS="-mod=mod", GOPROXY="off", GOSUMDB="off", GOTOOLCHAIN="local")
wt = tempfile.mkdtemp(prefix="seedwt-")
os.rmdir(wt)
def sh(cmd, cwd=None, check=True):
    r = subprocess.run(cmd, cwd=cwd, env=env, shell=isinstance(cmd, str), stdout=subprocess.PIPE, stderr=subprocess.STDOUT, text=True)
    if check and r.returncode != 0:
        print(r.stdout[-3000:]); raise SystemExit("FAILED: %s" % cmd)
    return r
res = {"name": name}
try:
    sh(["git", "-C", "/repo", "worktree", "add", "-q", "--detach", wt, "HEAD"])
    patch = os.path.join(src, "patch.diff")
    demo = os.path.join(src, "zz_seed_demo_test.go")
    meta = json.load(open(os.path.join(src, "meta.json")))
    r = sh(["git", "-C", wt, "apply", "--whitespace=nowarn", patch], check=False)
    if r.returncode != 0:
        print("patch does not apply:", r.stdout); raise SystemExit(1)
    r = sh(["python3", os.path.join(V, "tools/baseline.py"), wt], check=False)
    res["baseline_with_patch"] = r.stdout.strip().splitlines()[0]
    if r.returncode != 0:
        print("baseline fails with the patch:\n" + r.stdout); raise SystemExit(1)
    shutil.copy2(demo, os.path.join(wt, "zz_seed_demo_test.go"))
    race = "-race" in meta.get("demo_cmd", "")
    cmd = ["go", "test", "-vet=off", "-count=1", "-run", "SeedDemo", "."]
    e2 = dict(env)
    if race:
        cmd.insert(2, "-race"); e2["CGO_ENABLED"] = "1"
    r1 = subprocess.run(cmd, cwd=wt, env=e2, stdout=subprocess.PIPE, stderr=subprocess.STDOUT, text=True)
    res["demo_with_patch_rc"] = r1.returncode
    sh(["git", "-C", wt, "apply", "-R", "--whitespace=nowarn", patch])
    r2 = subprocess.run(cmd, cwd=wt, env=e2, stdout=subprocess.PIPE, stderr=subprocess.STDOUT, text=True)
    res["demo_without_patch_rc"] = r2.returncode
    ok = r1.returncode != 0 and r2.returncode == 0 and "no tests to run" not in r2.stdout
    res["confirmed"] = ok
    print(json.dumps(res))
    if not ok:
        print("WITH PATCH:\n" + r1.stdout[-1500:] + "\nWITHOUT:\n" + r2.stdout[-1500:]); raise SystemExit(1)
    dst = os.path.join(V, "seeded", name)
    os.makedirs(dst, exist_ok=True)
    shutil.copy2(patch, os.path.join(dst, "patch.diff"))
    shutil.copy2(demo, os.path.join(dst, "zz_seed_demo_test.go"))
    meta["confirmed"] = {"baseline_with_patch": res["baseline_with_patch"], "demo_fails_with_patch": True, "demo_passes_without_patch": True,
                         "ran": "tools/verify_seed.py: fresh worktree of /repo HEAD; git apply patch; tools/baseline.py (222 stable tests); go test -run SeedDemo (fails); git apply -R; go test -run SeedDemo (passes)",
                         "repo_head": sh(["git", "-C", "/repo", "rev-parse", "--short", "HEAD"]).stdout.strip()}
    json.dump(meta, open(os.path.join(dst, "meta.json"), "w"), indent=1)
finally:
    subprocess.run(["git", "-C", "/repo", "worktree", "remove", "--force", wt], stdout=subprocess.DEVNULL, stderr=subprocess.DEVNULL)
    shutil.rmtree(wt, ignore_errors=True)

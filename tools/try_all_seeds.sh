#!/bin/sh
# Runs every kept seeded change against the quick tier of the check of its property; prints one line per seed.
cd /verif || exit 2
for d in seeded/*/; do
  name=$(basename "$d")
  prop=$(python3 -c "import json,sys; print(json.load(open('$d/meta.json'))['property'])")
  tools/try_seed.sh "$name" "$prop" ${1:-quick} 2>&1 | head -1
done

#!/usr/bin/env python3
"""Driver of the bounded exhaustive checks (see DESIGN.md section 2.7).

  mc.py setup                       build tools, warm the build cache
  mc.py check <ID> [--tier quick|thorough] [--workers N] [--keep]
  mc.py replay <file>               re-execute a violation file against /repo's working tree

Exit codes: 0 property held on everything explored (known findings are printed and do not fail),
1 violation(s) not listed in KNOWN_FINDINGS.jsonl, 2 the machinery could not run.
"""
import json
import os
import shutil
import subprocess
import sys
import tempfile
import time

VERIF = os.path.dirname(os.path.abspath(__file__))
MC = os.path.join(VERIF, "mc")
REPO = os.environ.get("MC_REPO", "/repo")
BIN = os.path.join(VERIF, "bin")
SPEC_SRC = os.path.expanduser("~/go/pkg/mod/github.com/go-openapi/spec@v0.21.0")
KNOWN = os.path.join(VERIF, "KNOWN_FINDINGS.jsonl")

ENV = dict(os.environ)
ENV.update({"GOFLAGS": "-mod=mod", "GOPROXY": "off", "GOSUMDB": "off", "GOTOOLCHAIN": "local", "CGO_ENABLED": ENV.get("MC_CGO", "0")})

LEVEL = "model_checking"
WORK_LIMIT = 400000  # mcrt.WorkLimit: function entries + loop iterations of the instrumented module per execution


def die(msg, code=2):
    print("mc: " + msg, file=sys.stderr)
    sys.exit(code)


def run(cmd, cwd=None, env=None, check=True, capture=False, timeout=None):
    r = subprocess.run(cmd, cwd=cwd, env=env or ENV, stdout=subprocess.PIPE if capture else None,
                       stderr=subprocess.STDOUT if capture else None, text=True, timeout=timeout)
    if check and r.returncode != 0:
        if capture:
            sys.stderr.write(r.stdout or "")
        die("command failed (%d): %s" % (r.returncode, " ".join(cmd)))
    return r


def build_tools():
    os.makedirs(BIN, exist_ok=True)
    run(["go", "build", "-o", os.path.join(BIN, "mcinstr"), "./cmd/mcinstr"], cwd=MC)


def copy_repo(dst):
    """Copy the non-test Go sources of /repo's working tree (tracked or not)."""
    n = 0
    for root, dirs, files in os.walk(REPO):
        rel = os.path.relpath(root, REPO)
        dirs[:] = [d for d in dirs if d not in (".git", "fixtures", "analysis_test", ".github", "testdata") and not d.startswith(".")]
        for f in files:
            if f.endswith("_test.go"):
                continue
            if f.endswith(".go") or f in ("go.mod", "go.sum"):
                os.makedirs(os.path.join(dst, rel), exist_ok=True)
                shutil.copy2(os.path.join(root, f), os.path.join(dst, rel, f))
                n += 1
    return n


def copy_spec(dst):
    if not os.path.isdir(SPEC_SRC):
        die("go-openapi/spec v0.21.0 not found in the module cache")
    shutil.copytree(SPEC_SRC, dst, ignore=shutil.ignore_patterns("*_test.go", "fixtures", ".git*", "*.md", ".github"))
    for root, dirs, files in os.walk(dst):
        os.chmod(root, 0o755)
        for f in files:
            os.chmod(os.path.join(root, f), 0o644)
    # spec's own go.mod pins versions that are not in the (offline) module cache: use the repository's
    lines = []
    for ln in open(os.path.join(REPO, "go.mod")):
        if ln.startswith("module "):
            ln = "module github.com/go-openapi/spec\n"
        if "github.com/go-openapi/spec " in ln:
            continue
        lines.append(ln)
    open(os.path.join(dst, "go.mod"), "w").writelines(lines)
    shutil.copy2(os.path.join(REPO, "go.sum"), os.path.join(dst, "go.sum"))


def prepare(scratch, sync=False, race=False, plain=False):
    """Instrument scratch copies of analysis and spec and build the worker against them."""
    t0 = time.time()
    mcinstr = os.path.join(BIN, "mcinstr")
    if not os.path.exists(mcinstr):
        build_tools()
    a, s = os.path.join(scratch, "analysis"), os.path.join(scratch, "spec")
    copy_repo(a)
    copy_spec(s)
    sites = []
    info = {"uncontrolled": [], "sync_imports": []}
    if not plain:
        for d, base, label in ((a, 0, "analysis/"), (s, 10000, "spec/")):
            cmd = [mcinstr, "-dir", d, "-base", str(base), "-strip", d, "-label", label, "-out", os.path.join(scratch, label.strip("/") + ".sites.json")]
            if sync:
                cmd += ["-sync", "verif/mc/mcrt"]
            if label == "analysis/":
                cmd += ["-depth"]
            r = run(cmd, capture=True)
            rep = json.load(open(os.path.join(scratch, label.strip("/") + ".sites.json")))
            sites += rep["sites"]
            info["uncontrolled"] += rep.get("uncontrolled") or []
            info["sync_imports"] += rep.get("sync_imports") or []
    json.dump(sites, open(os.path.join(scratch, "sites.json"), "w"))
    # alternate go.mod for the harness module
    gm = open(os.path.join(MC, "go.mod")).read()
    gm = gm.replace("replace github.com/go-openapi/analysis => /repo", "replace github.com/go-openapi/analysis => %s\n\nreplace github.com/go-openapi/spec => %s" % (a, s))
    open(os.path.join(scratch, "go.mod"), "w").write(gm)
    shutil.copy2(os.path.join(MC, "go.sum"), os.path.join(scratch, "go.sum"))
    worker = os.path.join(scratch, "worker")
    cmd = ["go", "build", "-trimpath", "-modfile=" + os.path.join(scratch, "go.mod"), "-o", worker]
    env = dict(ENV)
    if race:
        cmd.append("-race")
        env["CGO_ENABLED"] = "1"
    cmd.append("./cmd/worker")
    r = run(cmd, cwd=MC, env=env, capture=True, check=False)
    if r.returncode != 0:
        sys.stderr.write(r.stdout)
        die("cannot build the worker against /repo's working tree (instrumented=%s)" % (not plain))
    info["sites"] = len(sites)
    info["build_s"] = round(time.time() - t0, 1)
    return worker, info


def load_known():
    known, fixed = {}, []
    if os.path.exists(KNOWN):
        for ln in open(KNOWN):
            ln = ln.strip()
            if not ln or ln.startswith("#"):
                continue
            if ln.startswith("fixed:"):
                fixed.append(ln)
                continue
            e = json.loads(ln)
            known[(e["property"], e["signature"])] = e
    return known, fixed


def fatal_frame(log):
    """First frame of go-openapi/analysis in the fatal crash report of a dead worker."""
    kind = "process death"
    for ln in log.splitlines():
        if ln.startswith("fatal error:"):
            kind = ln.strip()
            break
    for ln in log.splitlines():
        t = ln.strip()
        if t.startswith("github.com/go-openapi/analysis"):
            fn = t.split("(")[0].split("/")[-1]
            return kind + " in " + fn
    return kind


def run_workers(worker, prop, tier, n, scratch, seed, deadline, extra_args=""):
    """Run the n shards; a shard whose process dies is attributed through its journal and restarted without that input."""
    rdir = os.path.join(scratch, "replays")
    results, crashed, fatals = [], [], []
    skips = {i: [] for i in range(n)}
    pending = list(range(n))
    attempt = 0
    while pending and attempt < 4:
        attempt += 1
        procs = []
        for i in pending:
            out = os.path.join(scratch, "res.%d.json" % i)
            if os.path.exists(out):
                os.remove(out)
            jr = os.path.join(scratch, "journal.%d.json" % i)
            if os.path.exists(jr):
                os.remove(jr)
            cmd = [worker, "-prop", prop, "-tier", tier, "-shard", str(i), "-n", str(n), "-out", out, "-replays", rdir, "-seed", str(seed), "-journal", jr]
            if skips[i]:
                cmd += ["-skip", ",".join(str(k) for k in skips[i])]
            if deadline:
                cmd += ["-deadline", "%ds" % deadline]
            if extra_args:
                cmd += ["-args", extra_args]
            env = dict(ENV)
            env["GOMAXPROCS"] = "1"
            env["MC_SITES"] = os.path.join(scratch, "sites.json")
            log = open(os.path.join(scratch, "log.%d.txt" % i), "w")
            procs.append((i, out, jr, subprocess.Popen(cmd, env=env, stdout=log, stderr=subprocess.STDOUT), log))
        pending = []
        for i, out, jr, p, log in procs:
            rc = p.wait()
            log.close()
            if rc == 0 and os.path.exists(out):
                results.append(json.load(open(out)))
                continue
            tail = open(os.path.join(scratch, "log.%d.txt" % i), errors="replace").read()
            j = None
            try:
                j = json.load(open(jr))
            except Exception:
                pass
            if j is None:
                crashed.append((i, rc, tail[-4000:]))
                continue
            v = j["violation"]
            v["signature"] = "fatal crash of the process: " + fatal_frame(tail)
            v["what"] = "the worker process died while running this execution: " + tail[:1500]
            fatals.append(v)
            skips[i].append(j["k"])
            pending.append(i)
    # shards still dying after the last attempt: their fatal executions are reported, the shard is incomplete
    incomplete = sorted(set(pending))
    return results, crashed, fatals, incomplete


def merge(results):
    m = {"inputs": 0, "execs": 0, "choice_points": 0, "nontrivial": 0, "validated": 0, "outcomes": set(), "violations": {},
         "samples": [], "caps": [], "counters": {}, "bounds": {}, "notes": [], "exhaustive": True, "inputs_total": 0, "max_work": 0}
    for r in results:
        for k in ("inputs", "execs", "choice_points", "nontrivial", "validated"):
            m[k] += r.get(k) or 0
        m["inputs_total"] = max(m["inputs_total"], r.get("inputs_total") or 0)
        m["max_work"] = max(m["max_work"], r.get("max_work") or 0)
        m["outcomes"].update(r.get("outcomes") or [])
        for g in r.get("violations") or []:
            t = m["violations"].setdefault(g["signature"], {"signature": g["signature"], "count": 0, "what": g["what"], "replays": [], "shards": []})
            t["count"] += g["count"]
            t["replays"] += g["replays"]
            t["shards"].append(r.get("shard", 0))
        for s in r.get("samples") or []:
            if len(m["samples"]) < 4:
                m["samples"].append(s)
        for c in r.get("caps") or []:
            if c not in m["caps"]:
                m["caps"].append(c)
        for k, v in (r.get("counters") or {}).items():
            m["counters"][k] = m["counters"].get(k, 0) + v
        m["bounds"].update(r.get("bounds") or {})
        for nn in r.get("notes") or []:
            if nn not in m["notes"]:
                m["notes"].append(nn)
        m["exhaustive"] = m["exhaustive"] and r.get("exhaustive", True)
    return m


def rerun_shard(worker, prop, tier, shard, n, scratch, seed, deadline, sig, tag):
    """Re-run one shard in a fresh process and tell whether it reports the signature again (a violation that depends on
    state left behind by arbitrarily many earlier executions of its process is only reproducible that way)."""
    out = os.path.join(scratch, "rerun.%s.%d.json" % (tag, shard))
    cmd = [worker, "-prop", prop, "-tier", tier, "-shard", str(shard), "-n", str(n), "-out", out,
           "-replays", os.path.join(scratch, "replays-rerun-" + tag), "-seed", str(seed)]
    if deadline:
        cmd += ["-deadline", "%ds" % deadline]
    env = dict(ENV, GOMAXPROCS="1", MC_SITES=os.path.join(scratch, "sites.json"))
    r = subprocess.run(cmd, env=env, stdout=subprocess.PIPE, stderr=subprocess.STDOUT, text=True)
    if r.returncode != 0 or not os.path.exists(out):
        return False
    try:
        res = json.load(open(out))
    except Exception:
        return False
    return any(g["signature"] == sig for g in res.get("violations") or [])


def check(prop, tier, nworkers, keep, deadline):
    t0 = time.time()
    seed = int(os.environ.get("VERIF_SEED", "0") or 0)
    scratch = tempfile.mkdtemp(prefix="mc-%s-" % prop)
    code = 2
    try:
        spec_ = PROPS.get(prop)
        if spec_ is None:
            die("unknown property " + prop)
        worker, info = prepare(scratch, sync=spec_.get("sync", False))
        results, crashed, fatals, incomplete = run_workers(worker, prop, tier, nworkers, scratch, seed, deadline)
        m = merge(results)
        if info.get("uncontrolled"):
            # nondeterminism the rewriter could not put under the explorer's control: the run is not called exhaustive
            m["exhaustive"] = False
            m["caps"].append("constructs not under the explorer's control (order / scheduling not enumerated there): " + "; ".join(info["uncontrolled"][:6]))
        if incomplete:
            m["exhaustive"] = False
            m["caps"].append("shards %s not completed: their worker process died on %d different executions (each reported)" % (incomplete, len(fatals)))
        # executions that killed a worker: written as replay files, grouped by signature like any violation
        for v in fatals:
            import hashlib
            body = json.dumps(v, indent=1)
            fp = os.path.join(scratch, "replays", prop, "fatal-%s.json" % hashlib.sha1(body.encode()).hexdigest()[:12])
            os.makedirs(os.path.dirname(fp), exist_ok=True)
            open(fp, "w").write(body)
            g = m["violations"].setdefault(v["signature"], {"signature": v["signature"], "count": 0, "what": v["what"], "replays": []})
            g["count"] += 1
            g["replays"].append(fp)
        race_v = None
        if spec_.get("race_pass"):
            rp = race_pass(scratch, prop, tier, seed)
            log = rp.pop("log", "")
            m["race_pass"] = rp
            if rp["races"] > 0:
                import hashlib
                rdir0 = os.path.join(VERIF, "replays", prop)
                os.makedirs(rdir0, exist_ok=True)
                path = os.path.join(rdir0, "race-%s.txt" % hashlib.sha1(log.encode()).hexdigest()[:12])
                open(path, "w").write("race detector report of the free-running pass (re-run: ./check check %s)\n\n%s" % (prop, log))
                race_v = (path, rp["races"], rp["runs"])
        known, _fixed = load_known()
        if crashed:
            # a worker died (fatal stack overflow, out of memory, watchdog): attributed through its log
            for i, rc, tail in crashed:
                sys.stderr.write("mc: worker %d exited with %s\n%s\n" % (i, rc, tail))
            die("%d worker(s) died; see above" % len(crashed))
        out_lines, new_v, known_matched = [], 0, {}
        rdst = os.path.join(VERIF, "replays", prop)
        for sig, g in sorted(m["violations"].items()):
            if (prop, sig) in known:
                known_matched[sig] = g["count"]
                out_lines.append("KNOWN-FINDING: property=%s %s (%d executions) -- %s" % (prop, sig, g["count"], known[(prop, sig)].get("what", "")))
                continue
            # re-execute the replay file 5 times in fresh processes before believing it (the first 6 signatures;
            # further signatures of the same run are reported without being individually re-executed)
            rp = g["replays"][0]
            ok = 0
            confirmed_sigs = sum(1 for l in out_lines if l.startswith("VIOLATION"))
            if confirmed_sigs >= 6:
                ok = 5
            for _ in range(5 if ok == 0 else 0):
                r = subprocess.run([worker, "-replay", rp], env=dict(ENV, MC_SITES=os.path.join(scratch, "sites.json")), stdout=subprocess.PIPE, stderr=subprocess.STDOUT, text=True)
                if r.returncode == 1 or (sig.startswith("fatal crash") and r.returncode not in (0, 1) and "fatal error" in r.stdout):
                    ok += 1
            os.makedirs(rdst, exist_ok=True)
            dst = os.path.join(rdst, os.path.basename(rp))
            shutil.copy2(rp, dst)
            hist = False
            if ok < 5 and g.get("shards") and not sig.startswith("fatal crash"):
                # not reproducible alone (even with the two executions that preceded it): re-run its whole shard, twice,
                # in fresh processes; the enumeration is deterministic, so process-level state builds up identically
                sh = g["shards"][0]
                hist = all(rerun_shard(worker, prop, tier, sh, nworkers, scratch, seed, deadline, sig, "%d%d" % (len(out_lines), i)) for i in range(2))
                if hist:
                    import hashlib
                    rec = {"property": prop, "generator": "shard-rerun", "signature": sig, "tier": tier, "shard": sh, "n": nworkers, "seed": seed,
                           "what": "this violation depends on state left in the process by earlier executions of its shard (e.g. a package-level cache): "
                                   "it is reproduced by re-running the shard, not by the single execution. First occurrence: " + g["what"][:1500],
                           "first_occurrence": json.load(open(rp))}
                    dst = os.path.join(rdst, "shard-%s.json" % hashlib.sha1((sig + str(sh)).encode()).hexdigest()[:12])
                    json.dump(rec, open(dst, "w"), indent=1)
            if ok == 5 or hist:
                new_v += 1
                out_lines.append("VIOLATION property=%s replay=%s" % (prop, dst))
                out_lines.append("  signature: %s (%d executions)%s\n  what: %s" % (sig, g["count"], " [depends on the history of its process: confirmed by two re-runs of shard %d]" % g["shards"][0] if hist else "", g["what"][:600]))
            else:
                m["exhaustive"] = False
                m["caps"].append("violation %r reproduced only %d/5 times from %s: not reported, machinery needs attention" % (sig, ok, dst))
                out_lines.append("UNSTABLE property=%s signature=%r reproduced %d/5 replay=%s" % (prop, sig, ok, dst))
        if race_v:
            path, nr, runs = race_v
            if nr == runs and runs >= 5:
                new_v += 1
                out_lines.append("VIOLATION property=%s replay=%s" % (prop, path))
                out_lines.append("  signature: data race reported by the race detector in the free-running pass (%d/%d runs)" % (nr, runs))
            else:
                m["exhaustive"] = False
                m["caps"].append("race reported in %d/%d runs of the free-running pass: not stable, see %s" % (nr, runs, path))
        wall = time.time() - t0
        states = len(m["outcomes"]) + 1
        ev = {
            "property_id": prop, "tier": tier, "seed": seed, "level": LEVEL,
            "coverage": {
                "states": states, "transitions": m["execs"], "traces_validated_against_impl": m["validated"],
                "samples": m["samples"] or [{"note": "no sample recorded"}],
                "evaluations": m["execs"], "distinct_nontrivial": m["nontrivial"],
                "rule": spec_.get("rule", ""),
                "exhaustive": bool(m["exhaustive"]),
                "inputs": m["inputs"], "choice_points": m["choice_points"], "distinct_outcomes": len(m["outcomes"]),
                "bounds": m["bounds"], "caps_hit": m["caps"], "counters": m["counters"], "notes": m["notes"],
                "known_findings_matched": known_matched,
                "instrumentation": info, "workers": nworkers,
                "max_work_per_execution": m["max_work"], "work_limit": WORK_LIMIT,
            },
            "assumptions": spec_.get("assumptions", []) + COMMON_ASSUMPTIONS,
            "wall_s": round(wall, 2),
            "violations": new_v,
        }
        if "race_pass" in m:
            ev["coverage"]["race_pass"] = m["race_pass"]
        if not os.environ.get("MC_NO_EVIDENCE"):
            os.makedirs(os.path.join(VERIF, "evidence"), exist_ok=True)
            json.dump(ev, open(os.path.join(VERIF, "evidence", prop + ".json"), "w"), indent=1)
        print("mc: %s %s: inputs=%d executions=%d choice_points=%d distinct_outcomes=%d nontrivial=%d exhaustive=%s max_work=%d wall=%.1fs (build %.1fs)" % (
            prop, tier, m["inputs"], m["execs"], m["choice_points"], len(m["outcomes"]), m["nontrivial"], m["exhaustive"], m["max_work"], wall, info["build_s"]))
        for c in m["caps"]:
            print("mc: cap: " + c)
        shown = 0
        for ln in out_lines:
            if ln.startswith("VIOLATION"):
                shown += 1
            if shown > 12 and not ln.startswith("KNOWN-FINDING"):
                continue
            print(ln)
        if shown > 12:
            print("mc: ... %d more violation signatures not shown (all replay files are under %s)" % (shown - 12, rdst))
        if m["counters"].get("loader_seam_conformance_mismatches") and not new_v:
            for nn in m["notes"]:
                sys.stderr.write("mc: " + nn + "\n")
            die("the in-memory document loader does not conform to go-openapi/spec's default loader (harness problem, not a violation)")
        if m["execs"] == 0 and not new_v:
            die("no execution was run")
        code = 1 if new_v else 0
    finally:
        if keep:
            print("mc: scratch kept at " + scratch)
        else:
            shutil.rmtree(scratch, ignore_errors=True)
    return code


def race_pass(scratch, prop, tier, seed):
    """Free-running pass of the same harness bodies under the race detector (not an exhaustive step)."""
    sub = os.path.join(scratch, "race")
    os.makedirs(sub)
    worker, _info = prepare(sub, plain=True, race=True)
    env = dict(ENV, GORACE="halt_on_error=1 exitcode=66", CGO_ENABLED="1")
    res = {"ran": True, "runs": 0, "races": 0, "seed": seed, "goroutines": 8}
    logs = []
    for attempt in range(5):
        out = os.path.join(sub, "res.json")
        r = subprocess.run([worker, "-prop", prop, "-tier", tier, "-out", out, "-seed", str(seed + attempt), "-args", "mode=race"], env=env,
                           stdout=subprocess.PIPE, stderr=subprocess.STDOUT, text=True)
        res["runs"] += 1
        raced = r.returncode == 66 or "DATA RACE" in r.stdout or "concurrent map" in r.stdout
        if raced:
            res["races"] += 1
            logs.append(r.stdout[-6000:])
        elif r.returncode != 0:
            sys.stderr.write(r.stdout[-3000:])
            die("race pass worker failed (%d)" % r.returncode)
        else:
            try:
                res["calls"] = json.load(open(out)).get("execs", 0)
            except Exception:
                pass
        if not raced and attempt == 0:
            break  # clean first run: done
        if not raced:
            break  # a race that does not reproduce is reported as unstable by the caller
    res["log"] = logs[0] if logs else ""
    return res


def replay(path):
    """Re-execute a violation file against /repo's working tree (instrumented build, no explorer)."""
    if path.endswith(".txt"):
        # report of the free-running race pass: not replayable step by step; re-run the pass
        print(open(path).read()[:3000])
        print("mc: this is a race-detector report of C16's free-running pass; re-running that pass")
        scratch = tempfile.mkdtemp(prefix="mc-replay-")
        try:
            rp = race_pass(scratch, "C16", "quick", int(os.environ.get("VERIF_SEED", "0") or 0))
            print("mc: race pass: %d run(s), %d with a race report" % (rp["runs"], rp["races"]))
            return 1 if rp["races"] else 0
        finally:
            shutil.rmtree(scratch, ignore_errors=True)
    rec = json.load(open(path))
    prop = rec.get("property", "")
    if rec.get("generator") == "shard-rerun":
        scratch = tempfile.mkdtemp(prefix="mc-replay-")
        try:
            worker, _ = prepare(scratch, sync=PROPS.get(prop, {}).get("sync", False))
            again = rerun_shard(worker, prop, rec["tier"], rec["shard"], rec["n"], scratch, rec.get("seed", 0), 0, rec["signature"], "replay")
            print(("REPRODUCED" if again else "NOT-REPRODUCED") + " property=%s signature=%r (re-run of shard %d of %d)" % (prop, rec["signature"], rec["shard"], rec["n"]))
            return 1 if again else 0
        finally:
            shutil.rmtree(scratch, ignore_errors=True)
    scratch = tempfile.mkdtemp(prefix="mc-replay-")
    try:
        worker, _ = prepare(scratch, sync=PROPS.get(prop, {}).get("sync", False))
        r = subprocess.run([worker, "-replay", path], env=dict(ENV, MC_SITES=os.path.join(scratch, "sites.json")))
        return r.returncode
    finally:
        shutil.rmtree(scratch, ignore_errors=True)


COMMON_ASSUMPTIONS = [
    "bounded scope: only inputs, orders and faults within the stated bounds are covered",
    "map iteration order is the only scheduling nondeterminism of the single-goroutine code; it is owned through source rewriting (mcinstr) of package analysis, its internal packages and go-openapi/spec; swag/jsonpointer/jsonreference are not instrumented",
    "no dependence on time, randomness or environment variables on the analysed paths",
    "POSIX paths, no network: documents are served by an in-memory loader installed in spec.PathLoader",
]

PROPS = {}


def load_props():
    global PROPS
    PROPS = json.load(open(os.path.join(VERIF, "props.json")))


def main():
    if len(sys.argv) < 2:
        die(__doc__)
    cmd = sys.argv[1]
    load_props()
    if cmd == "setup":
        build_tools()
        # warm the build cache with an instrumented build
        scratch = tempfile.mkdtemp(prefix="mc-setup-")
        try:
            prepare(scratch)
        finally:
            shutil.rmtree(scratch, ignore_errors=True)
        print("mc: setup done")
        return 0
    if cmd == "check":
        prop = sys.argv[2]
        tier = os.environ.get("VERIF_TIER", "quick")
        n = int(os.environ.get("MC_WORKERS", str(os.cpu_count() or 4)))
        keep = False
        deadline = 0
        a = sys.argv[3:]
        while a:
            if a[0] == "--tier":
                tier = a[1]; a = a[2:]
            elif a[0] == "--workers":
                n = int(a[1]); a = a[2:]
            elif a[0] == "--deadline":
                deadline = int(a[1]); a = a[2:]
            elif a[0] == "--keep":
                keep = True; a = a[1:]
            else:
                die("unknown argument " + a[0])
        if not deadline:
            deadline = PROPS.get(prop, {}).get("deadline_" + tier, 0)
        return check(prop, tier, n, keep, deadline)
    if cmd == "replay":
        return replay(sys.argv[2])
    die(__doc__)


if __name__ == "__main__":
    sys.exit(main())

// Package oracle holds the reference models. They work on generic JSON (map[string]any decoded from
// the serialized documents) and import neither analysis nor spec.
package oracle

import (
	"net/url"
	"sort"
	"strconv"
	"strings"
)

// Methods7 are the HTTP methods of a Swagger 2.0 path item.
var Methods7 = []string{"get", "put", "post", "delete", "options", "head", "patch"}

// RefEntry is a $ref found in the document.
type RefEntry struct {
	Tokens []string // JSON pointer tokens (unescaped) of the holder
	Ref    string
	Kind   string // schema | parameter | response | pathitem | items
	Loc    string // for items: header | parameter
}

// SchemaEntry is a schema found in the document.
type SchemaEntry struct {
	Tokens   []string
	Value    any
	TopLevel bool
	HasAllOf bool
}

// PEEntry is a pattern or enum found in the document.
type PEEntry struct {
	Tokens  []string
	Cat     string // parameter | header | items | schema
	Pattern string
	Enum    []any
}

// Walk is the result of the independent structural walk of a Swagger 2.0 document.
type Walk struct {
	Refs     []RefEntry
	Schemas  []SchemaEntry
	Patterns []PEEntry
	Enums    []PEEntry
}

func obj(v any) map[string]any {
	m, _ := v.(map[string]any)
	return m
}

func arr(v any) []any {
	a, _ := v.([]any)
	return a
}

func str(v any) string {
	s, _ := v.(string)
	return s
}

func sortedKeys(m map[string]any) []string {
	ks := make([]string, 0, len(m))
	for k := range m {
		ks = append(ks, k)
	}
	sort.Strings(ks)
	return ks
}

func tok(base []string, more ...string) []string {
	r := make([]string, 0, len(base)+len(more))
	r = append(r, base...)
	return append(r, more...)
}

// WalkDoc walks a Swagger 2.0 document given as generic JSON.
func WalkDoc(doc map[string]any) *Walk {
	w := &Walk{}
	for _, name := range sortedKeys(obj(doc["definitions"])) {
		w.schema(obj(doc["definitions"])[name], []string{"definitions", name}, true)
	}
	for _, name := range sortedKeys(obj(doc["parameters"])) {
		w.param(obj(obj(doc["parameters"])[name]), []string{"parameters", name}, false)
	}
	for _, name := range sortedKeys(obj(doc["responses"])) {
		w.response(obj(obj(doc["responses"])[name]), []string{"responses", name}, false)
	}
	paths := obj(doc["paths"])
	for _, p := range sortedKeys(paths) {
		if strings.HasPrefix(p, "x-") {
			continue
		}
		pi := obj(paths[p])
		base := []string{"paths", p}
		if r := str(pi["$ref"]); r != "" {
			w.Refs = append(w.Refs, RefEntry{Tokens: base, Ref: r, Kind: "pathitem"})
		}
		for i, pr := range arr(pi["parameters"]) {
			w.param(obj(pr), tok(base, "parameters", strconv.Itoa(i)), true)
		}
		for _, m := range Methods7 {
			op := obj(pi[m])
			if op == nil {
				continue
			}
			ob := tok(base, m)
			for i, pr := range arr(op["parameters"]) {
				w.param(obj(pr), tok(ob, "parameters", strconv.Itoa(i)), true)
			}
			rs := obj(op["responses"])
			for _, code := range sortedKeys(rs) {
				if code != "default" {
					if _, err := strconv.Atoi(code); err != nil {
						continue
					}
				}
				w.response(obj(rs[code]), tok(ob, "responses", code), true)
			}
		}
	}
	return w
}

func (w *Walk) pe(m map[string]any, tokens []string, cat string) {
	if p := str(m["pattern"]); p != "" {
		w.Patterns = append(w.Patterns, PEEntry{Tokens: tokens, Cat: cat, Pattern: p})
	}
	if e := arr(m["enum"]); len(e) > 0 {
		w.Enums = append(w.Enums, PEEntry{Tokens: tokens, Cat: cat, Enum: e})
	}
}

func (w *Walk) param(p map[string]any, tokens []string, inline bool) {
	if p == nil {
		return
	}
	if r := str(p["$ref"]); r != "" && inline {
		w.Refs = append(w.Refs, RefEntry{Tokens: tokens, Ref: r, Kind: "parameter"})
	}
	w.pe(p, tokens, "parameter")
	w.items(obj(p["items"]), tok(tokens, "items"), "parameter")
	if str(p["in"]) == "body" && p["schema"] != nil {
		w.schema(p["schema"], tok(tokens, "schema"), false)
	}
}

func (w *Walk) response(r map[string]any, tokens []string, inline bool) {
	if r == nil {
		return
	}
	if ref := str(r["$ref"]); ref != "" && inline {
		w.Refs = append(w.Refs, RefEntry{Tokens: tokens, Ref: ref, Kind: "response"})
	}
	hs := obj(r["headers"])
	for _, hn := range sortedKeys(hs) {
		hd := obj(hs[hn])
		ht := tok(tokens, "headers", hn)
		w.items(obj(hd["items"]), tok(ht, "items"), "header")
		w.pe(hd, ht, "header")
	}
	if r["schema"] != nil {
		w.schema(r["schema"], tok(tokens, "schema"), false)
	}
}

func (w *Walk) items(it map[string]any, tokens []string, loc string) {
	if it == nil {
		return
	}
	w.items(obj(it["items"]), tok(tokens, "items"), loc)
	if r := str(it["$ref"]); r != "" {
		w.Refs = append(w.Refs, RefEntry{Tokens: tokens, Ref: r, Kind: "items", Loc: loc})
	}
	w.pe(it, tokens, "items")
}

func (w *Walk) schema(v any, tokens []string, top bool) {
	s := obj(v)
	if s == nil {
		// boolean schemas (additionalProperties: true) are not schemas
		return
	}
	w.Schemas = append(w.Schemas, SchemaEntry{Tokens: tokens, Value: v, TopLevel: top, HasAllOf: len(arr(s["allOf"])) > 0})
	if r := str(s["$ref"]); r != "" {
		w.Refs = append(w.Refs, RefEntry{Tokens: tokens, Ref: r, Kind: "schema"})
	}
	w.pe(s, tokens, "schema")
	for _, kw := range []string{"definitions", "properties", "patternProperties"} {
		m := obj(s[kw])
		for _, k := range sortedKeys(m) {
			w.schema(m[k], tok(tokens, kw, k), false)
		}
	}
	for _, kw := range []string{"allOf", "anyOf", "oneOf"} {
		for i, e := range arr(s[kw]) {
			w.schema(e, tok(tokens, kw, strconv.Itoa(i)), false)
		}
	}
	if s["not"] != nil {
		w.schema(s["not"], tok(tokens, "not"), false)
	}
	for _, kw := range []string{"additionalProperties", "additionalItems"} {
		if obj(s[kw]) != nil {
			w.schema(s[kw], tok(tokens, kw), false)
		}
	}
	switch it := s["items"].(type) {
	case map[string]any:
		w.schema(it, tok(tokens, "items"), false)
	case []any:
		for i, e := range it {
			w.schema(e, tok(tokens, "items", strconv.Itoa(i)), false)
		}
	}
}

// PointerTokens decodes a "#/a/b~1c" style key (optionally URL-escaped) into unescaped tokens.
func PointerTokens(key string, urlEscaped bool) ([]string, bool) {
	if !strings.HasPrefix(key, "#") {
		return nil, false
	}
	p := key[1:]
	if urlEscaped {
		u, err := url.PathUnescape(p)
		if err != nil {
			return nil, false
		}
		p = u
	}
	if p == "" {
		return []string{}, true
	}
	if !strings.HasPrefix(p, "/") {
		return nil, false
	}
	parts := strings.Split(p[1:], "/")
	for i, s := range parts {
		parts[i] = strings.ReplaceAll(strings.ReplaceAll(s, "~1", "/"), "~0", "~")
	}
	return parts, true
}

// Resolve evaluates pointer tokens over generic JSON.
func Resolve(doc any, tokens []string) (any, bool) {
	cur := doc
	for _, t := range tokens {
		switch c := cur.(type) {
		case map[string]any:
			v, ok := c[t]
			if !ok {
				return nil, false
			}
			cur = v
		case []any:
			i, err := strconv.Atoi(t)
			if err != nil || i < 0 || i >= len(c) {
				return nil, false
			}
			cur = c[i]
		default:
			return nil, false
		}
	}
	return cur, true
}

// TokKey is a collision-free string form of a token list.
func TokKey(tokens []string) string {
	var b strings.Builder
	for _, t := range tokens {
		b.WriteString(strconv.Itoa(len(t)))
		b.WriteByte(':')
		b.WriteString(t)
		b.WriteByte('/')
	}
	return b.String()
}

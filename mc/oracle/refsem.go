package oracle

import (
	"fmt"
	"net/url"
	"path"
	"sort"
	"strings"
)

// Bundle is a set of JSON documents by path (relative, slash separated); the meaning of a document
// position is the (possibly infinite) tree obtained by unfolding every $ref.
type Bundle struct {
	Files map[string]any
}

// Node is a position in a bundle.
type Node struct {
	B    *Bundle
	File string
	Ptr  string // canonical pointer: tokens joined with \x00
	Val  any
}

func (n Node) id() string { return n.File + "\x01" + n.Ptr }

func (n Node) child(tok string, v any) Node {
	return Node{B: n.B, File: n.File, Ptr: n.Ptr + "\x00" + tok, Val: v}
}

// Root node of a file.
func (b *Bundle) Root(file string) Node { return Node{B: b, File: file, Val: b.Files[file]} }

// At returns the node at tokens in file.
func (b *Bundle) At(file string, tokens []string) (Node, bool) {
	n := b.Root(file)
	for _, t := range tokens {
		v, ok := Resolve(n.Val, []string{t})
		if !ok {
			return Node{}, false
		}
		n = n.child(t, v)
	}
	return n, true
}

// ErrUnresolved describes a $ref that cannot be resolved.
type ErrUnresolved struct{ File, Ref, Why string }

func (e *ErrUnresolved) Error() string {
	return fmt.Sprintf("unresolvable $ref %q in %s: %s", e.Ref, e.File, e.Why)
}

// SplitRef splits a $ref into the target file (relative to the bundle) and pointer tokens.
func SplitRef(fromFile, ref string) (file string, tokens []string, err error) {
	filePart, frag := ref, ""
	if i := strings.Index(ref, "#"); i >= 0 {
		filePart, frag = ref[:i], ref[i+1:]
	}
	file = fromFile
	if filePart != "" {
		fp, e := url.PathUnescape(filePart)
		if e != nil {
			return "", nil, e
		}
		if strings.HasPrefix(fp, "/") || strings.Contains(fp, "://") {
			return "", nil, fmt.Errorf("absolute reference %q", ref)
		}
		file = path.Clean(path.Join(path.Dir(fromFile), fp))
	}
	if frag != "" {
		toks, ok := PointerTokens("#"+frag, true)
		if !ok {
			return "", nil, fmt.Errorf("bad fragment %q", frag)
		}
		tokens = toks
	}
	return file, tokens, nil
}

// Deref follows $refs until a non-$ref value is reached.
func (n Node) Deref() (Node, error) {
	seen := map[string]bool{}
	for {
		m, ok := n.Val.(map[string]any)
		if !ok {
			return n, nil
		}
		ref, isRef := m["$ref"].(string)
		if !isRef {
			return n, nil
		}
		if seen[n.id()] {
			return n, &ErrUnresolved{n.File, ref, "reference cycle without content"}
		}
		seen[n.id()] = true
		file, toks, err := SplitRef(n.File, ref)
		if err != nil {
			return n, &ErrUnresolved{n.File, ref, err.Error()}
		}
		if _, ok := n.B.Files[file]; !ok {
			return n, &ErrUnresolved{n.File, ref, "no such document " + file}
		}
		t, ok := n.B.At(file, toks)
		if !ok {
			return n, &ErrUnresolved{n.File, ref, "no such position"}
		}
		n = t
	}
}

// IsOpaqueKey tells whether the member k of a Swagger object holds free-form data (vendor extensions, examples,
// defaults, enum values) rather than Swagger objects: the library treats such values as opaque JSON, so a "$ref"
// member inside them is data, not a reference. Names of the generators' alphabet never collide with these keys.
func IsOpaqueKey(k string) bool {
	return strings.HasPrefix(strings.ToLower(k), "x-") || k == "example" || k == "examples" || k == "default" || k == "enum"
}

// opaqueUnder is IsOpaqueKey in context: "default" directly under a "responses" object is the default response.
func opaqueUnder(parent, k string) bool {
	return IsOpaqueKey(k) && !(k == "default" && parent == "responses")
}

func lastToken(ptr, sep string) string {
	if i := strings.LastIndex(ptr, sep); i >= 0 {
		return ptr[i+len(sep):]
	}
	return ptr
}

// LiteralDiff compares two JSON values without following any $ref.
func LiteralDiff(a, b any, where string) string { return literalDiff(a, b, where) }

func literalDiff(a, b any, where string) string {
	switch va := a.(type) {
	case map[string]any:
		vb, ok := b.(map[string]any)
		if !ok {
			return fmt.Sprintf("%s: object vs %T", where, b)
		}
		for _, k := range sortedKeys(va) {
			cb, ok := vb[k]
			if !ok {
				return fmt.Sprintf("%s: key %q missing on the right", where, k)
			}
			if d := literalDiff(va[k], cb, where+"/"+k); d != "" {
				return d
			}
		}
		for _, k := range sortedKeys(vb) {
			if _, ok := va[k]; !ok {
				return fmt.Sprintf("%s: key %q missing on the left", where, k)
			}
		}
		return ""
	case []any:
		vb, ok := b.([]any)
		if !ok {
			return fmt.Sprintf("%s: array vs %T", where, b)
		}
		if len(va) != len(vb) {
			return fmt.Sprintf("%s: array length %d vs %d", where, len(va), len(vb))
		}
		for i := range va {
			if d := literalDiff(va[i], vb[i], where+"/"+fmt.Sprint(i)); d != "" {
				return d
			}
		}
		return ""
	default:
		if fmt.Sprintf("%T:%v", a, a) != fmt.Sprintf("%T:%v", b, b) {
			return fmt.Sprintf("%s: %v vs %v", where, a, b)
		}
		return ""
	}
}

// EqOpts tunes the comparison.
type EqOpts struct {
	// IgnoreKey reports object keys of the right-hand side that are ignored at a given node.
	IgnoreKeyRight func(n Node, key string) bool
}

// Diff explains the first difference found, "" if the two nodes are bisimilar.
func Diff(a, b Node, o *EqOpts) string {
	assumed := map[string]bool{}
	return diff(a, b, o, assumed, "")
}

func diff(a, b Node, o *EqOpts, assumed map[string]bool, where string) string {
	da, err := a.Deref()
	if err != nil {
		return where + ": left: " + err.Error()
	}
	db, err := b.Deref()
	if err != nil {
		return where + ": right: " + err.Error()
	}
	key := da.id() + "\x02" + db.id()
	if assumed[key] {
		return ""
	}
	assumed[key] = true
	switch va := da.Val.(type) {
	case map[string]any:
		vb, ok := db.Val.(map[string]any)
		if !ok {
			return fmt.Sprintf("%s: object vs %T", where, db.Val)
		}
		keys := map[string]bool{}
		for k := range va {
			keys[k] = true
		}
		for k := range vb {
			if o != nil && o.IgnoreKeyRight != nil && o.IgnoreKeyRight(db, k) {
				continue
			}
			keys[k] = true
		}
		ks := make([]string, 0, len(keys))
		for k := range keys {
			ks = append(ks, k)
		}
		sort.Strings(ks)
		for _, k := range ks {
			ca, oka := va[k]
			cb, okb := vb[k]
			if !oka || !okb {
				side := "right"
				if !oka {
					side = "left"
				}
				return fmt.Sprintf("%s: key %q missing on the %s", where, k, side)
			}
			if opaqueUnder(lastToken(where, "/"), k) {
				if d := literalDiff(ca, cb, where+"/"+k); d != "" {
					return d
				}
				continue
			}
			if d := diff(da.child(k, ca), db.child(k, cb), o, assumed, where+"/"+k); d != "" {
				return d
			}
		}
		return ""
	case []any:
		vb, ok := db.Val.([]any)
		if !ok {
			return fmt.Sprintf("%s: array vs %T", where, db.Val)
		}
		if len(va) != len(vb) {
			return fmt.Sprintf("%s: array length %d vs %d", where, len(va), len(vb))
		}
		for i := range va {
			t := fmt.Sprint(i)
			if d := diff(da.child(t, va[i]), db.child(t, vb[i]), o, assumed, where+"/"+t); d != "" {
				return d
			}
		}
		return ""
	default:
		if fmt.Sprintf("%T:%v", da.Val, da.Val) != fmt.Sprintf("%T:%v", db.Val, db.Val) {
			return fmt.Sprintf("%s: %v vs %v", where, da.Val, db.Val)
		}
		return ""
	}
}

// RefOccurrence is a $ref string found by the generic scan.
type RefOccurrence struct {
	Tokens []string
	Ref    string
}

// ScanRefs finds every object having a string "$ref" member, anywhere in v.
func ScanRefs(v any, tokens []string, out *[]RefOccurrence) {
	switch t := v.(type) {
	case map[string]any:
		if r, ok := t["$ref"].(string); ok {
			*out = append(*out, RefOccurrence{Tokens: append([]string(nil), tokens...), Ref: r})
		}
		for _, k := range sortedKeys(t) {
			if len(tokens) > 0 && opaqueUnder(tokens[len(tokens)-1], k) || len(tokens) == 0 && IsOpaqueKey(k) {
				continue // free-form data: a "$ref" member in there is not a reference
			}
			ScanRefs(t[k], append(tokens, k), out)
		}
	case []any:
		for i, e := range t {
			ScanRefs(e, append(tokens, fmt.Sprint(i)), out)
		}
	}
}

// RefGraphCyclic tells whether the $ref graph of the bundle, restricted to what is reachable from the
// root document, has a cycle. Nodes are $ref targets; an edge goes from a target to every target
// referenced from inside it.
func RefGraphCyclic(b *Bundle, rootFile string) (bool, error) {
	state := map[string]int{} // 1 in progress, 2 done
	var visit func(n Node) (bool, error)
	var walk func(n Node) (bool, error)
	walk = func(n Node) (bool, error) {
		switch t := n.Val.(type) {
		case map[string]any:
			if ref, ok := t["$ref"].(string); ok {
				file, toks, err := SplitRef(n.File, ref)
				if err != nil {
					return false, &ErrUnresolved{n.File, ref, err.Error()}
				}
				if _, ok := b.Files[file]; !ok {
					return false, &ErrUnresolved{n.File, ref, "no such document"}
				}
				tn, ok := b.At(file, toks)
				if !ok {
					return false, &ErrUnresolved{n.File, ref, "no such position"}
				}
				return visit(tn)
			}
			for _, k := range sortedKeys(t) {
				if opaqueUnder(lastToken(n.Ptr, "\x00"), k) {
					continue
				}
				if c, err := walk(n.child(k, t[k])); c || err != nil {
					return c, err
				}
			}
		case []any:
			for i, e := range t {
				if c, err := walk(n.child(fmt.Sprint(i), e)); c || err != nil {
					return c, err
				}
			}
		}
		return false, nil
	}
	visit = func(n Node) (bool, error) {
		switch state[n.id()] {
		case 1:
			return true, nil
		case 2:
			return false, nil
		}
		state[n.id()] = 1
		c, err := walk(n)
		state[n.id()] = 2
		return c, err
	}
	return walk(b.Root(rootFile))
}

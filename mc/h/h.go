// Package h is the harness around the code under test: in-memory document loader,
// controlled environment, outcome capture (error / panic / horizon / output bytes).
package h

import (
	"encoding/json"
	"errors"
	"fmt"
	"hash/fnv"
	"net/url"
	"os"
	"path/filepath"
	"runtime"
	"sort"
	"strings"

	"github.com/go-openapi/analysis"
	"github.com/go-openapi/spec"

	"verif/mc/mcrt"
)

// VRoot is the virtual directory bundles are served from.
const VRoot = "/vfs"

// Bundle is a root document plus auxiliary documents, by path relative to VRoot.
type Bundle struct {
	Files map[string]string `json:"files"`
	Root  string            `json:"root"`
	Desc  []string          `json:"desc,omitempty"`
}

// FaultKind of an injected load failure.
type FaultKind int

const (
	NoFault FaultKind = iota
	FaultError
	FaultMalformed
	FaultEmpty
)

// Loader state.
type Loader struct {
	B     *Bundle
	Loads []string
	// Fault is asked at every load (after the path was recorded); nil: never fail.
	Fault func(n int, path string) FaultKind
}

// ErrInjected is returned by a load that was made to fail.
var ErrInjected = errors.New("mc: injected load failure")

func (l *Loader) load(pth string) (json.RawMessage, error) {
	p := pth
	if u, err := url.Parse(pth); err == nil && u.Scheme == "file" {
		p = u.Path
	}
	l.Loads = append(l.Loads, p)
	n := len(l.Loads) - 1
	rel := strings.TrimPrefix(p, VRoot+"/")
	doc, ok := l.B.Files[rel]
	if l.Fault != nil {
		switch l.Fault(n, rel) {
		case FaultError:
			return nil, ErrInjected
		case FaultMalformed:
			return json.RawMessage(`{"definitions": {`), nil
		case FaultEmpty:
			return json.RawMessage(`{}`), nil
		}
	}
	if !ok {
		return nil, fmt.Errorf("mc: no such document %q", pth)
	}
	return json.RawMessage(doc), nil
}

// DefaultLoader is go-openapi/spec's own document loader (files / http), captured before any bundle is installed.
var DefaultLoader = spec.PathLoader

// RunFlattenOnDisk writes the bundle to dir and flattens it through spec's default loader (conformance of the loader seam).
func RunFlattenOnDisk(b *Bundle, o Opts, dir string) (*Outcome, error) {
	for f, d := range b.Files {
		p := filepath.Join(dir, filepath.FromSlash(f))
		if err := os.MkdirAll(filepath.Dir(p), 0o755); err != nil {
			return nil, err
		}
		if err := os.WriteFile(p, []byte(d), 0o644); err != nil {
			return nil, err
		}
	}
	spec.PathLoader = DefaultLoader
	mcrt.Reset(mcrt.Asc, nil, DefaultHorizon)
	out := &Outcome{}
	Guard(out, func() {
		sw, err := LoadSwagger(b.Files[b.Root])
		if err != nil {
			out.Err = "load: " + err.Error()
			return
		}
		err = analysis.Flatten(analysis.FlattenOpts{Spec: analysis.New(sw), BasePath: filepath.Join(dir, b.Root),
			Minimal: o.Minimal, Expand: o.Expand, RemoveUnused: o.RemoveUnused, KeepNames: o.KeepNames, ContinueOnError: o.ContinueOnError, Verbose: o.Verbose})
		if err != nil {
			out.Err = err.Error()
			return
		}
		out.Out = Marshal(sw)
	})
	return out, nil
}

// Install makes spec load documents from the bundle.
func Install(b *Bundle) *Loader {
	l := &Loader{B: b}
	spec.PathLoader = l.load
	return l
}

// Opts are the Flatten options under test.
type Opts struct {
	Minimal         bool `json:"minimal,omitempty"`
	Expand          bool `json:"expand,omitempty"`
	RemoveUnused    bool `json:"remove_unused,omitempty"`
	KeepNames       bool `json:"keep_names,omitempty"`
	ContinueOnError bool `json:"continue_on_error,omitempty"`
	Verbose         bool `json:"verbose,omitempty"`
}

func (o Opts) String() string {
	var s []string
	switch {
	case o.Minimal:
		s = append(s, "minimal")
	case o.Expand:
		s = append(s, "expand")
	default:
		s = append(s, "full")
	}
	if o.RemoveUnused {
		s = append(s, "removeunused")
	}
	if o.KeepNames {
		s = append(s, "keepnames")
	}
	if o.ContinueOnError {
		s = append(s, "continueonerror")
	}
	if o.Verbose {
		s = append(s, "verbose")
	}
	return strings.Join(s, "+")
}

// Outcome of one call of the code under test.
type Outcome struct {
	Err         string `json:"err,omitempty"`
	Panic       string `json:"panic,omitempty"`
	PanicFrame  string `json:"panic_frame,omitempty"`
	Horizon     bool   `json:"horizon,omitempty"`
	HorizonSite int    `json:"horizon_site,omitempty"`
	Out         []byte `json:"-"`
	Loads       int    `json:"loads,omitempty"`
	Steps       int    `json:"steps,omitempty"`
}

// OK reports a normal return without error.
func (o *Outcome) OK() bool { return o.Err == "" && o.Panic == "" && !o.Horizon }

// Crashed reports a panic or a horizon trip.
func (o *Outcome) Crashed() bool { return o.Panic != "" || o.Horizon }

// Class is a short classification of the outcome.
func (o *Outcome) Class() string {
	switch {
	case o.Horizon:
		return "diverges"
	case o.Panic != "":
		return "panic"
	case o.Err != "":
		return "error"
	}
	return "ok"
}

// Hash of the outcome (class + output bytes + error text).
func (o *Outcome) Hash() uint64 {
	f := fnv.New64a()
	f.Write([]byte(o.Class()))
	f.Write([]byte{0})
	f.Write([]byte(o.Err))
	f.Write([]byte{0})
	f.Write(o.Out)
	return f.Sum64()
}

// Guard runs fn, converting a panic or a horizon trip into the outcome.
func Guard(out *Outcome, fn func()) {
	defer func() {
		if r := recover(); r != nil {
			if he, ok := r.(*mcrt.HorizonError); ok {
				out.Horizon = true
				out.HorizonSite = he.Site
				mcrt.Cur.Steps = 0
				return
			}
			out.Panic = fmt.Sprint(r)
			out.PanicFrame = innermostFrame()
		}
	}()
	fn()
}

// innermostFrame returns the innermost frame of go-openapi/analysis on the panicking stack.
func innermostFrame() string {
	pcs := make([]uintptr, 128)
	n := runtime.Callers(3, pcs)
	frames := runtime.CallersFrames(pcs[:n])
	first := ""
	for {
		fr, more := frames.Next()
		if strings.Contains(fr.Function, "go-openapi/analysis") {
			fn := fr.Function
			if i := strings.LastIndex(fn, "/"); i >= 0 {
				fn = fn[i+1:]
			}
			return fn
		}
		if first == "" && !strings.HasPrefix(fr.Function, "runtime.") && !strings.Contains(fr.Function, "verif/mc/h.") {
			first = fr.Function
		}
		if !more {
			break
		}
	}
	return first
}

// FreeRunning is set (before any goroutine starts) by the free-running race pass: the harness then never
// touches the controlled environment, which is a single-goroutine global.
var FreeRunning bool

// LoadSwagger decodes a document into the spec model.
func LoadSwagger(doc string) (*spec.Swagger, error) {
	// loading is not the code under test: it does not count against the step horizon
	if !FreeRunning {
		saved := mcrt.Cur.Horizon
		mcrt.Cur.Horizon = 0
		defer func() { mcrt.Cur.Horizon = saved }()
	}
	sw := new(spec.Swagger)
	if err := json.Unmarshal([]byte(doc), sw); err != nil {
		return nil, err
	}
	return sw, nil
}

// Marshal serializes the spec model (canonical: encoding/json sorts map keys).
func Marshal(v any) []byte {
	if !FreeRunning {
		saved := mcrt.Cur.Horizon
		mcrt.Cur.Horizon = 0
		defer func() { mcrt.Cur.Horizon = saved }()
	}
	b, err := json.Marshal(v)
	if err != nil {
		return []byte("MARSHAL-ERROR: " + err.Error())
	}
	return b
}

// Env describes the controlled environment of one execution.
type Env struct {
	Policy  mcrt.Policy
	Chooser mcrt.Chooser
	Horizon int
}

// DefaultHorizon is the step horizon (map iterations) of one execution.
const DefaultHorizon = 200000

// FlattenResult bundles what a Flatten execution produced.
type FlattenResult struct {
	Outcome
	Doc      *spec.Swagger
	Analyzed *analysis.Spec
	Loader   *Loader
}

// PreFlatten, when set, is called with the analyzed Spec before Flatten (C10: a caller that has already
// queried the analyzer keeps using it afterwards).
var PreFlatten func(an *analysis.Spec)

// RunFlatten loads the root of b, analyzes it and calls Flatten under env.
func RunFlatten(b *Bundle, o Opts, env Env, fault func(n int, path string) FaultKind) *FlattenResult {
	res := &FlattenResult{}
	l := Install(b)
	l.Fault = fault
	res.Loader = l
	hz := env.Horizon
	if hz == 0 {
		hz = DefaultHorizon
	}
	e := mcrt.Reset(env.Policy, env.Chooser, hz)
	Guard(&res.Outcome, func() {
		sw, err := LoadSwagger(b.Files[b.Root])
		if err != nil {
			res.Err = "load: " + err.Error()
			return
		}
		res.Doc = sw
		an := analysis.New(sw)
		res.Analyzed = an
		if PreFlatten != nil {
			PreFlatten(an)
		}
		err = analysis.Flatten(analysis.FlattenOpts{
			Spec: an, BasePath: VRoot + "/" + b.Root,
			Minimal: o.Minimal, Expand: o.Expand, RemoveUnused: o.RemoveUnused, KeepNames: o.KeepNames, ContinueOnError: o.ContinueOnError, Verbose: o.Verbose,
		})
		if err != nil {
			res.Err = err.Error()
		}
	})
	res.Steps = e.Steps
	res.Loads = len(l.Loads)
	if res.Doc != nil && !res.Crashed() {
		Guard(&res.Outcome, func() { res.Out = Marshal(res.Doc) })
	}
	return res
}

// ReFlatten calls Flatten again on the live objects of a finished execution: the same document object and the same
// analyzed Spec the first call was given (a caller that keeps its FlattenOpts and calls Flatten a second time).
func ReFlatten(first *FlattenResult, b *Bundle, o Opts, env Env) *FlattenResult {
	res := &FlattenResult{Doc: first.Doc, Analyzed: first.Analyzed}
	l := Install(b)
	res.Loader = l
	hz := env.Horizon
	if hz == 0 {
		hz = DefaultHorizon
	}
	e := mcrt.Reset(env.Policy, env.Chooser, hz)
	Guard(&res.Outcome, func() {
		err := analysis.Flatten(analysis.FlattenOpts{
			Spec: first.Analyzed, BasePath: VRoot + "/" + b.Root,
			Minimal: o.Minimal, Expand: o.Expand, RemoveUnused: o.RemoveUnused, KeepNames: o.KeepNames, ContinueOnError: o.ContinueOnError, Verbose: o.Verbose,
		})
		if err != nil {
			res.Err = err.Error()
		}
	})
	res.Steps = e.Steps
	res.Loads = len(l.Loads)
	if res.Doc != nil && !res.Crashed() {
		Guard(&res.Outcome, func() { res.Out = Marshal(res.Doc) })
	}
	return res
}

// SortedKeys of a JSON object.
func SortedKeys(m map[string]any) []string {
	ks := make([]string, 0, len(m))
	for k := range m {
		ks = append(ks, k)
	}
	sort.Strings(ks)
	return ks
}

// ToJSON decodes bytes into generic JSON (objects as map[string]any).
func ToJSON(b []byte) any {
	var v any
	if err := json.Unmarshal(b, &v); err != nil {
		return nil
	}
	return v
}

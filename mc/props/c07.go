package props

import (
	"encoding/json"
	"fmt"
	"os"
	"reflect"
	"sort"
	"strings"

	"verif/mc/gen"
	"verif/mc/h"
	"verif/mc/mcrt"
	"verif/mc/mcx"
)

// ---- C07: Flatten is deterministic ----

type siteInfo struct {
	ID   int    `json:"id"`
	File string `json:"file"`
	Line int    `json:"line"`
	Func string `json:"func"`
}

var siteTable map[int]string

func siteLabel(id int) string {
	if siteTable == nil {
		siteTable = map[int]string{}
		if p := os.Getenv("MC_SITES"); p != "" {
			if b, err := os.ReadFile(p); err == nil {
				var l []siteInfo
				if json.Unmarshal(b, &l) == nil {
					for _, s := range l {
						siteTable[s.ID] = fmt.Sprintf("%s:%d(%s)", s.File, s.Line, s.Func)
					}
				}
			}
		}
	}
	if s, ok := siteTable[id]; ok {
		return s
	}
	return fmt.Sprintf("site%d", id)
}

// orderChooser forwards the order decisions of the runtime to the explorer.
type orderChooser struct{ x *mcx.Exec }

func (c *orderChooser) ChooseOrder(site int, keys []string, n int) int {
	return c.x.Choose(mcx.ORDER, n, siteLabel(site)+"|"+strings.Join(keys, ","))
}

func (c *orderChooser) ChooseNewKey(site int, key string) int {
	return c.x.Choose(mcx.ORDER, 2, "newkey@"+siteLabel(site)+"|"+key)
}

type c07Unit struct {
	In   *flatInput
	Opts h.Opts
}

func c07Observe(r *h.FlattenResult) string {
	return r.Class() + "\x00" + r.Err + "\x00" + r.Panic + "\x00" + string(r.Out)
}

// c07Explore explores every single (bound d) ORDER deviation from base policy pol and compares with ref.
func c07Explore(c *Ctx, u *c07Unit, pol mcrt.Policy, bound int, ref string, maxExec int64) (execs int64, capHit bool) {
	e := mcx.New()
	e.Bound[mcx.ORDER] = bound
	e.MaxExec = maxExec
	var res *h.FlattenResult
	e.Run(func(x *mcx.Exec) {
		res = h.RunFlatten(u.In.B, u.Opts, h.Env{Policy: pol, Chooser: &orderChooser{x}}, nil)
	}, func(x *mcx.Exec) bool {
		c.Execs++
		c.Validated++
		c.Outcome(res.Hash())
		if obs := c07Observe(res); obs != ref {
			devs := x.Deviations()
			var dl []string
			site := ""
			for _, d := range devs {
				dl = append(dl, fmt.Sprintf("%s -> alternative %d of %d", d.Label, d.Choice, d.N))
				if site == "" {
					site = strings.SplitN(d.Label, "|", 2)[0]
				}
			}
			if site == "" {
				site = "(ascending vs descending base order, no single site)"
			}
			c.Violate(&Violation{Signature: "output depends on the map iteration order at " + site + " (" + u.Opts.String() + ")",
				What:      fmt.Sprintf("deviations from the base order: %v\nbase output:\n%s\nthis output:\n%s", dl, printableObs(ref), printableObs(obs)),
				Generator: "c07", Input: u.In.B, Env: J{"policy": int(pol), "opts": u.Opts, "choices": x.Choices()}})
		}
		return true
	})
	c.ChoicePoints += e.Stats.ChoicePoints
	return e.Stats.Executions, e.Stats.CapHit
}

func printableObs(s string) string { return strings.ReplaceAll(s, "\x00", " | ") }

func c07Units(c *Ctx) []*c07Unit {
	var units []*c07Unit
	singles, pairs := flatCatalogues(c)
	var feats [][2]any
	_ = feats
	addUnits := func(fs []gen.Feature, idx []int) {
		in, ok := buildFlatInput(fs, idx)
		if !ok {
			return
		}
		for _, o := range in.optionSets(func(o h.Opts) bool {
			if o.Expand {
				return in.cyclicOK && !in.Cyclic && c.Thorough()
			}
			if !c.Thorough() && o.RemoveUnused && !o.KeepNames && o.Minimal {
				all := len(in.Labels) > 0
				for _, l := range in.Labels {
					all = all && strings.Contains(l, "unused")
				}
				if all {
					return true // removal of unused definitions is order-sensitive by itself
				}
			}
			if !c.Thorough() && (o.RemoveUnused || o.KeepNames) {
				return false
			}
			return true
		}) {
			units = append(units, &c07Unit{In: in, Opts: o})
		}
	}
	// members of sets whose order can matter: two imports, two collisions, two parents of one renamed
	// definition, two operations sharing a body parameter, two pointers to one target
	sensitive := func(f gen.Feature) bool {
		return strings.Contains(f.Label, "collidingImport") || strings.Contains(f.Label, "refAux") || strings.Contains(f.Label, "pointer[") ||
			strings.Contains(f.Label, "pathBody") || strings.Contains(f.Label, "selfRecursiveAux") || strings.Contains(f.Label, "preNamed") || strings.Contains(f.Label, "twoImports") || strings.Contains(f.Label, "SameGeneratedName") || strings.Contains(f.Label, "twoPathsManglingAlike") || strings.Contains(f.Label, "pathPrefixOfAnother") ||
			strings.Contains(f.Label, "CaseDifferent") || strings.Contains(f.Label, "NamesEqualUpTo") || strings.Contains(f.Label, "unusedAlias") || strings.Contains(f.Label, "auxDiamond") ||
			strings.Contains(f.Label, "aliasOf") ||
			strings.Contains(f.Label, "SameNameDifferentDirs") || strings.Contains(f.Label, "paramRefWithAuxSchema") || strings.Contains(f.Label, "pathItemRefWithAuxSchema")
	}
	if c.Thorough() {
		for i := range singles {
			addUnits(singles, []int{i})
		}
	} else {
		// quick: the order-sensitive part of the reduced catalogue as singles (the rest is covered by thorough)
		for i := range pairs {
			if sensitive(pairs[i]) || strings.Contains(pairs[i].Label, "opBody<-") {
				addUnits(pairs, []int{i})
			}
		}
		// ... plus the holders where several operations / parents compete for one schema
		for i := range singles {
			l := singles[i].Label
			if l == "threeSchemasOneGeneratedNameWithPendingImport" || strings.HasPrefix(l, "collidingImportTwoReferrersInInlineWhoseNameIsTaken") || strings.HasPrefix(l, "collidingImportReferrersAtTwoDepthsOfTakenInlines") || strings.HasPrefix(l, "takenInlines[") {
				addUnits(singles, []int{i}) // three rounds of name conflict resolution, with a pending import nested in the third
			}
			if (strings.HasPrefix(l, "pathBody<-") || strings.HasPrefix(l, "sharedBody<-")) && (strings.HasSuffix(l, "<-object") || strings.HasSuffix(l, "<-tuple") || strings.HasSuffix(l, "<-collidingImport[sameName]") || strings.HasSuffix(l, "<-pointer[properties,complex]")) {
				addUnits(singles, []int{i})
			}
		}
	}
	// removal of unused definitions (order of the removal passes): unused chains alone and next to an unused leaf
	if !c.Thorough() {
		var unusedIdx []int
		for i := range pairs {
			if strings.Contains(pairs[i].Label, "unusedChain") || pairs[i].Label == "unusedDefinition[a/b]" {
				unusedIdx = append(unusedIdx, i)
				addUnits(pairs, []int{i})
			}
		}
		for a := 0; a < len(unusedIdx); a++ {
			for b := a + 1; b < len(unusedIdx); b++ {
				addUnits(pairs, []int{unusedIdx[a], unusedIdx[b]})
			}
		}
	}
	// pairs whose members belong to sets whose order can matter: two imports, two collisions, two parents
	// of one renamed definition, two operations sharing a body parameter, two pointers to one target
	n := 0
	for i := range pairs {
		for j := i + 1; j < len(pairs); j++ {
			if !sensitive(pairs[i]) || !sensitive(pairs[j]) {
				continue
			}
			n++
			if !c.Thorough() && n%150 != 0 {
				continue // quick: every 60th order-sensitive pair; thorough: all of them
			}
			addUnits(pairs, []int{i, j})
		}
	}
	return units
}

func init() {
	register(&Check{ID: "C07", Run: func(c *Ctx) {
		bound := 1
		c.Bounds["order_deviations"] = bound
		c.Bounds["full_permutations_up_to_keys"] = mcrt.MaxFullPerm
		c.Bounds["above"] = "2n rotations of the ascending and descending orders"
		c.Bounds["base_policies"] = 2
		if !c.Thorough() {
			c.Bounds["pairs"] = "every 150th pair of order-sensitive features (fixed enumeration order); thorough: all"
		}
		units := c07Units(c)
		c.Bounds["units(input x options)"] = len(units)
		maxExec := int64(6000)
		if c.Thorough() {
			maxExec = 20000
		}
		for k, u := range units {
			if !c.Mine(int64(k)) {
				continue
			}
			c.Begin(&Violation{Signature: "fatal crash of the process", Generator: "c07", Input: u.In.B, Env: J{"policy": 0, "opts": u.Opts, "choices": []int{}}})
			base := h.RunFlatten(u.In.B, u.Opts, h.Env{Policy: mcrt.Asc}, nil)
			ref := c07Observe(base)
			c.Execs++
			// determinism of the harness itself: the same choices must give the same observation
			again := h.RunFlatten(u.In.B, u.Opts, h.Env{Policy: mcrt.Asc}, nil)
			c.Execs++
			if c07Observe(again) != ref {
				c.Violate(&Violation{Signature: "two runs with identical controlled choices differ (" + u.Opts.String() + ")", What: printableObs(ref) + "\nvs\n" + printableObs(c07Observe(again)),
					Generator: "c07", Input: u.In.B, Env: J{"policy": 0, "opts": u.Opts, "choices": []int{}}})
				continue
			}
			nt := false
			for _, pol := range []mcrt.Policy{mcrt.Asc, mcrt.Desc} {
				n, capped := c07Explore(c, u, pol, bound, ref, maxExec)
				if n > 1 {
					nt = true
				}
				if capped {
					c.Cap(fmt.Sprintf("more than %d single-deviation executions for one (input, options, base): exploration of that unit truncated", maxExec))
				}
			}
			// thorough: pairs of deviations on single-feature bundles (bounded per unit)
			if c.Thorough() && len(u.In.Labels) <= 1 && u.Opts.Minimal && !u.Opts.RemoveUnused {
				if _, capped := c07Explore(c, u, mcrt.Asc, 2, ref, 30000); capped {
					c.Cap("two-deviation exploration truncated at 30000 executions for some units")
				}
			}
			if nt {
				c.NonTrivial++
				c.Sample(J{"features": u.In.Labels, "options": u.Opts.String()})
			}
			if c.Expired() {
				return
			}
		}
		// insertion history: every permutation of the JSON key order of every object of the small inputs
		c07KeyOrders(c, units)
	}, Replay: func(v *Violation) string {
		b, _ := json.Marshal(v.Input)
		var bundle h.Bundle
		if err := json.Unmarshal(b, &bundle); err != nil {
			return ""
		}
		ob, _ := json.Marshal(v.Env["opts"])
		var o h.Opts
		_ = json.Unmarshal(ob, &o)
		pol := mcrt.Asc
		if p, ok := v.Env["policy"].(float64); ok {
			pol = mcrt.Policy(int(p))
		}
		if alt, ok := v.Env["permuted_root"].(string); ok {
			return c07ReplayKeyOrder(&bundle, alt, o)
		}
		var choices []int
		cb, _ := json.Marshal(v.Env["choices"])
		_ = json.Unmarshal(cb, &choices)
		base := c07Observe(h.RunFlatten(&bundle, o, h.Env{Policy: mcrt.Asc}, nil))
		var res *h.FlattenResult
		mcx.Replay(choices, func(x *mcx.Exec) {
			res = h.RunFlatten(&bundle, o, h.Env{Policy: pol, Chooser: &orderChooser{x}}, nil)
		})
		if obs := c07Observe(res); obs != base {
			return "output differs from the base order:\n" + printableObs(base) + "\nvs\n" + printableObs(obs)
		}
		return ""
	}})
}

// ---- JSON key order (insertion history of the document's maps) ----

// marshalOrdered serializes generic JSON; the object at path target gets its keys in the given order,
// every other object in ascending (or, if reverseAll, descending) order.
func marshalOrdered(v any, path string, target string, order []string, reverseAll bool, sb *strings.Builder) {
	switch t := v.(type) {
	case map[string]any:
		keys := h.SortedKeys(t)
		if reverseAll {
			sort.Sort(sort.Reverse(sort.StringSlice(keys)))
		}
		if path == target && order != nil {
			keys = order
		}
		sb.WriteByte('{')
		for i, k := range keys {
			if i > 0 {
				sb.WriteByte(',')
			}
			kb, _ := json.Marshal(k)
			sb.Write(kb)
			sb.WriteByte(':')
			marshalOrdered(t[k], path+"\x00"+k, target, order, reverseAll, sb)
		}
		sb.WriteByte('}')
	case []any:
		sb.WriteByte('[')
		for i, e := range t {
			if i > 0 {
				sb.WriteByte(',')
			}
			marshalOrdered(e, fmt.Sprintf("%s\x00%d", path, i), target, order, reverseAll, sb)
		}
		sb.WriteByte(']')
	default:
		b, _ := json.Marshal(v)
		sb.Write(b)
	}
}

func objectPaths(v any, path string, out *[]string, objs map[string]map[string]any) {
	switch t := v.(type) {
	case map[string]any:
		if len(t) >= 2 {
			*out = append(*out, path)
			objs[path] = t
		}
		for _, k := range h.SortedKeys(t) {
			objectPaths(t[k], path+"\x00"+k, out, objs)
		}
	case []any:
		for i, e := range t {
			objectPaths(e, fmt.Sprintf("%s\x00%d", path, i), out, objs)
		}
	}
}

func c07KeyOrders(c *Ctx, units []*c07Unit) {
	seen := map[string]bool{}
	var k int64
	for _, u := range units {
		rootJSON := u.In.B.Files[u.In.B.Root]
		if seen[rootJSON] || len(u.In.Labels) > 1 {
			continue
		}
		seen[rootJSON] = true
		k++
		if !c.Mine(1_000_000 + k) {
			continue
		}
		if c.Expired() {
			return // the cap is recorded: exhaustive=false
		}
		doc := h.ToJSON([]byte(rootJSON))
		base, err := h.LoadSwagger(rootJSON)
		if err != nil {
			continue
		}
		var paths []string
		objs := map[string]map[string]any{}
		objectPaths(doc, "", &paths, objs)
		check := func(alt string, what string) {
			c.Execs++
			c.Validated++
			sw, err := h.LoadSwagger(alt)
			if err != nil || !reflect.DeepEqual(sw, base) {
				c.Violate(&Violation{Signature: "loading depends on the JSON key order of the document", What: what, Generator: "c07", Input: u.In.B, Env: J{"permuted_root": alt, "opts": u.Opts}})
			}
		}
		for _, p := range paths {
			keys := h.SortedKeys(objs[p])
			n := mcrt.NumOrders(len(keys))
			for idx := 1; idx < n; idx++ {
				perm := mcrt.Perm(mcrt.Asc, len(keys), idx)
				order := make([]string, len(keys))
				for i, j := range perm {
					order[i] = keys[j]
				}
				var sb strings.Builder
				marshalOrdered(doc, "", p, order, false, &sb)
				check(sb.String(), "object at "+strings.ReplaceAll(p, "\x00", "/")+" with key order "+strings.Join(order, ","))
			}
		}
		// every object reversed at once, then flattened: the bytes must be those of the sorted input
		var sb strings.Builder
		marshalOrdered(doc, "", "", nil, true, &sb)
		check(sb.String(), "all objects in descending key order")
		if msg := c07ReplayKeyOrder(u.In.B, sb.String(), u.Opts); msg != "" {
			c.Violate(&Violation{Signature: "Flatten output depends on the JSON key order of the input", What: msg, Generator: "c07", Input: u.In.B, Env: J{"permuted_root": sb.String(), "opts": u.Opts}})
		}
		c.Execs += 2
	}
}

func c07ReplayKeyOrder(b *h.Bundle, alt string, o h.Opts) string {
	base, err := h.LoadSwagger(b.Files[b.Root])
	if err != nil {
		return ""
	}
	sw, err := h.LoadSwagger(alt)
	if err != nil {
		return "permuted document does not load: " + err.Error()
	}
	if !reflect.DeepEqual(sw, base) {
		return "permuted document loads to a different model"
	}
	b2 := &h.Bundle{Files: map[string]string{}, Root: b.Root}
	for f, d := range b.Files {
		b2.Files[f] = d
	}
	b2.Files[b.Root] = alt
	r1 := h.RunFlatten(b, o, h.Env{Policy: mcrt.Asc}, nil)
	r2 := h.RunFlatten(b2, o, h.Env{Policy: mcrt.Asc}, nil)
	if c07Observe(r1) != c07Observe(r2) {
		return "flattening the permuted document gives a different result:\n" + printableObs(c07Observe(r1)) + "\nvs\n" + printableObs(c07Observe(r2))
	}
	return ""
}

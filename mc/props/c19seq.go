package props

import (
	"encoding/json"
	"fmt"
	"reflect"
	"strings"

	"github.com/go-openapi/analysis"
	"github.com/go-openapi/spec"

	"verif/mc/h"
	"verif/mc/mcrt"
)

// ---- C19, second part: explicit-state search over call/edit sequences on ONE live document ----
//
// The statement is about every call ("after the call, every response ... has a non-empty description"), not only the
// first call on a freshly loaded document. States are documents held as live *spec.Swagger objects; transitions are
//   fix              FixEmptyResponseDescriptions(sw)
//   set(slot,state)  an edit of one response slot through the spec model's Go API (the object graph stays the same)
//   reload           serialise + load: same document, new object identities
// Every sequence over this alphabet up to the depth bound that ends with fix is executed from every start document
// (live objects cannot be cloned: each sequence is replayed from a fresh load), and after EVERY fix of the sequence the
// document must equal the reference model applied to the document as it was just before that fix.

type c19Op struct {
	Kind  string `json:"kind"` // fix | set | reload
	Slot  string `json:"slot,omitempty"`
	State int    `json:"state,omitempty"`
}

func (o c19Op) String() string {
	if o.Kind == "set" {
		return fmt.Sprintf("set(%s,%d)", o.Slot, o.State)
	}
	return o.Kind
}

var c19SeqSlots = []string{"shared:s0", "/a:get:default", "/a:get:500", "/a:post:201", "/b:put:default"}

// states used by edits: 1 inline with description, 2 inline without, 3 $ref, 4 explicitly empty description
var c19SeqStates = []int{2, 4, 1, 3}

func c19SeqAlphabet() []c19Op {
	ops := []c19Op{{Kind: "fix"}, {Kind: "reload"}}
	for _, s := range c19SeqSlots {
		for _, st := range c19SeqStates {
			ops = append(ops, c19Op{Kind: "set", Slot: s, State: st})
		}
	}
	return ops
}

func c19SeqStartDocs() []string {
	resp := func(st int, tag string) any { return c19Response(st, tag) }
	docs := []J{
		// every operation has a responses object with one described response
		{"swagger": "2.0", "info": J{"title": "t", "version": "1"}, "responses": J{"s0": resp(1, "s0")},
			"paths": J{"/a": J{"get": J{"responses": J{"200": resp(1, "200")}}, "post": J{"responses": J{"default": resp(1, "default")}}}, "/b": J{"put": J{"responses": J{"200": resp(1, "200")}}}}},
		// operations without a responses object, no shared section
		{"swagger": "2.0", "info": J{"title": "t", "version": "1"},
			"paths": J{"/a": J{"get": J{}, "post": J{}}, "/b": J{"put": J{}}}},
		// already something to fix everywhere
		{"swagger": "2.0", "info": J{"title": "t", "version": "1"}, "responses": J{"s0": resp(2, "s0")},
			"paths": J{"/a": J{"get": J{"responses": J{"default": resp(2, "default"), "500": resp(4, "500")}}, "post": J{"responses": J{"201": resp(2, "201")}}}, "/b": J{"put": J{"responses": J{"default": resp(4, "default")}}}}},
	}
	var out []string
	for _, d := range docs {
		out = append(out, mustJSON(d))
	}
	return out
}

func c19SpecResponse(state int, tag string) spec.Response {
	var r spec.Response
	b, _ := json.Marshal(c19Response(state, tag))
	_ = json.Unmarshal(b, &r)
	return r
}

// c19ApplySet edits one slot of the live document through the spec model (creating the holders that are missing).
func c19ApplySet(sw *spec.Swagger, slot string, state int) {
	parts := strings.Split(slot, ":")
	r := c19SpecResponse(state, slot)
	if parts[0] == "shared" {
		if sw.Responses == nil {
			sw.Responses = map[string]spec.Response{}
		}
		sw.Responses[parts[1]] = r
		return
	}
	if sw.Paths == nil {
		sw.Paths = &spec.Paths{Paths: map[string]spec.PathItem{}}
	}
	if sw.Paths.Paths == nil {
		sw.Paths.Paths = map[string]spec.PathItem{}
	}
	pi := sw.Paths.Paths[parts[0]]
	var opp **spec.Operation
	switch parts[1] {
	case "get":
		opp = &pi.Get
	case "post":
		opp = &pi.Post
	case "put":
		opp = &pi.Put
	}
	if *opp == nil {
		*opp = &spec.Operation{}
	}
	op := *opp
	if op.Responses == nil {
		op.Responses = &spec.Responses{}
	}
	if parts[2] == "default" {
		op.Responses.Default = &r
	} else {
		if op.Responses.StatusCodeResponses == nil {
			op.Responses.StatusCodeResponses = map[int]spec.Response{}
		}
		code := 0
		fmt.Sscanf(parts[2], "%d", &code)
		op.Responses.StatusCodeResponses[code] = r
	}
	sw.Paths.Paths[parts[0]] = pi
}

// c19RunSeq executes one sequence; it returns the signature/explanation of the first violated step, and the trace of documents.
func c19RunSeq(docJSON string, seq []c19Op, pol mcrt.Policy) (sig, what, final string, fixes int) {
	sw, err := h.LoadSwagger(docJSON)
	if err != nil {
		return "", "", "", 0
	}
	var out h.Outcome
	mcrt.Reset(pol, nil, h.DefaultHorizon)
	for i, op := range seq {
		switch op.Kind {
		case "set":
			c19ApplySet(sw, op.Slot, op.State)
		case "reload":
			sw2, err := h.LoadSwagger(string(h.Marshal(sw)))
			if err != nil {
				return "", "", "", fixes
			}
			sw = sw2
		case "fix":
			before := string(h.Marshal(sw))
			h.Guard(&out, func() { analysis.FixEmptyResponseDescriptions(sw) })
			fixes++
			if out.Crashed() {
				return "crash " + out.Class() + " at " + out.PanicFrame + " (call sequence)", fmt.Sprintf("step %d of %v: %s", i, seq, out.Panic), "", fixes
			}
			after := string(h.Marshal(sw))
			want := reffix(h.ToJSON([]byte(before)))
			if !reflect.DeepEqual(want, h.ToJSON([]byte(after))) {
				return "wrong-result after a sequence of calls and edits on one document", fmt.Sprintf("step %d of %v: before %s, want %s, got %s", i, seq, before, mustJSON(want), after), after, fixes
			}
		}
	}
	return "", "", string(h.Marshal(sw)), fixes
}

func c19Sequences(c *Ctx) {
	depth := 4
	if c.Thorough() {
		depth = 5
	}
	alpha := c19SeqAlphabet()
	c.Bounds["sequence_depth"] = depth
	c.Bounds["sequence_alphabet"] = len(alpha)
	docs := c19SeqStartDocs()
	c.Bounds["sequence_start_documents"] = len(docs)
	var k int64
	var rec func(di int, seq []c19Op)
	run := func(di int, seq []c19Op) {
		k++
		if !c.Mine(k - 1) {
			return
		}
		for _, pol := range []mcrt.Policy{mcrt.Asc, mcrt.Desc} {
			in := J{"doc": json.RawMessage(docs[di]), "seq": seq}
			c.Begin(&Violation{Signature: "fatal crash of the process", Generator: "c19seq", Input: in, Env: J{"policy": int(pol)}})
			sig, what, final, fixes := c19RunSeq(docs[di], seq, pol)
			c.Execs++
			c.Validated += int64(fixes)
			c.ChoicePoints += int64(len(seq))
			c.Outcome(hashStr(final + sig))
			if sig != "" {
				c.Violate(&Violation{Signature: sig, What: what, Generator: "c19seq", Input: J{"doc": json.RawMessage(docs[di]), "seq": append([]c19Op(nil), seq...)}, Env: J{"policy": int(pol)}})
			}
		}
		c.Inputs++
		c.NonTrivial++
	}
	rec = func(di int, seq []c19Op) {
		if c.Expired() {
			return
		}
		if len(seq) > 0 && seq[len(seq)-1].Kind == "fix" && len(seq) >= 2 {
			run(di, seq)
		}
		if len(seq) == depth {
			return
		}
		for _, op := range alpha {
			// two reloads in a row and a reload at the start are the same state as one / none
			if op.Kind == "reload" && (len(seq) == 0 || seq[len(seq)-1].Kind == "reload") {
				continue
			}
			rec(di, append(seq, op))
		}
	}
	for di := range docs {
		rec(di, nil)
	}
}

func c19SeqReplay(v *Violation) string {
	in := v.Input.(map[string]any)
	var seq []c19Op
	_ = json.Unmarshal([]byte(mustJSON(in["seq"])), &seq)
	pol := mcrt.Asc
	if p, ok := v.Env["policy"].(float64); ok {
		pol = mcrt.Policy(int(p))
	}
	sig, what, _, _ := c19RunSeq(mustJSON(in["doc"]), seq, pol)
	if sig == "" {
		return ""
	}
	return sig + ": " + what
}

package props

import (

	"github.com/go-openapi/analysis"
	"github.com/go-openapi/spec"

	"verif/mc/h"
	"verif/mc/mcrt"
)

// Prelude puts the process in a non-initial state before any exploration (and before any replay): a fixed series of
// calls that FAIL or hit unusual inputs — classifications of schemas whose $ref cannot be resolved, Flatten calls that
// return errors, analyses of odd documents, parameter lookups with bad $refs, a Mixin and a fixer call. The library keeps
// no state between calls, so on a correct tree this changes nothing; a counter, memo or cache leaked by an error path
// (process-level state) is then in place when the property is checked. Results are ignored, panics recovered.
func Prelude() int {
	n := 0
	guard := func(f func()) {
		defer func() { _ = recover() }()
		mcrt.Reset(mcrt.Asc, nil, h.DefaultHorizon)
		f()
		n++
	}
	root, _ := h.LoadSwagger(`{"swagger":"2.0","info":{"title":"t","version":"1"},"paths":{},"definitions":{"ok":{"type":"object","properties":{"a":{"type":"string"}}}}}`)
	bad := []string{
		`{"$ref":"#/definitions/missing"}`,
		`{"type":"array","items":{"$ref":"#/definitions/missing"}}`,
		`{"type":"object","additionalProperties":{"$ref":"#/definitions/missing"}}`,
		`{"type":"array","items":{"type":"array","items":{"$ref":"nowhere.json#/definitions/x"}}}`,
		`{"$ref":"#/definitions/ok/properties/nope"}`,
	}
	for i := 0; i < 60; i++ {
		for _, b := range bad {
			var sch spec.Schema
			if sch.UnmarshalJSON([]byte(b)) != nil {
				continue
			}
			guard(func() { _, _ = analysis.Schema(analysis.SchemaOpts{Schema: &sch, Root: root, BasePath: h.VRoot + "/prelude.json"}) })
		}
	}
	failing := []map[string]string{
		{"root.json": `{"swagger":"2.0","info":{"title":"t","version":"1"},"paths":{"/p":{"get":{"responses":{"200":{"description":"ok","schema":{"$ref":"#/definitions/nope"}}}}}}}`},
		{"root.json": `{"swagger":"2.0","info":{"title":"t","version":"1"},"paths":{"/p":{"get":{"responses":{"200":{"description":"ok","schema":{"$ref":"gone/missing.json#/definitions/x"}}}}}}}`},
		{"root.json": `{"swagger":"2.0","info":{"title":"t","version":"1"},"paths":{"/p":{"get":{"responses":{"200":{"description":"ok","schema":{"$ref":"#/definitions/a/properties/x"}}}}}},"definitions":{"a":{"type":"object","properties":{"x":{"$ref":"#/definitions/b/properties/y"}}},"b":{"type":"object","properties":{"y":{"$ref":"#/definitions/a/properties/x"}}}}}`},
		{"root.json": `{"swagger":"2.0","info":{"title":"t","version":"1"},"paths":{"/p":{"get":{"parameters":[{"$ref":"#/parameters/nope"}],"responses":{"200":{"$ref":"prelude/none.json#/responses/r"}}}}}}`},
		{"root.json": `{"swagger":"2.0","info":{"title":"t","version":"1"},"paths":{"/p":{"get":{"responses":{"200":{"description":"ok","schema":{"$ref":"prelude/aux.json#/definitions/has"}}}}}}}`,
			"prelude/aux.json": `{"definitions":{"has":{"type":"object","properties":{"d":{"$ref":"#/definitions/notThere"}}}}}`},
	}
	for i := 0; i < 4; i++ {
		for _, files := range failing {
			for _, o := range []h.Opts{{Minimal: true}, {}, {Expand: true}, {Minimal: true, RemoveUnused: true}, {RemoveUnused: true, ContinueOnError: true}} {
				b := &h.Bundle{Files: files, Root: "root.json"}
				guard(func() { h.RunFlatten(b, o, h.Env{Policy: mcrt.Asc}, nil) })
			}
		}
	}
	odd, err := h.LoadSwagger(`{"swagger":"2.0","info":{"title":"t","version":"1"},"parameters":{"sp":{"name":"sp","in":"query","type":"string"}},
	 "paths":{"/p/{id}":{"parameters":[{"$ref":"#/parameters/nope"},{"$ref":"#/definitions/ok"},{"$ref":"#/parameters/sp"}],"get":{"operationId":"g","parameters":[{"$ref":"#/parameters/gone"}],"responses":{"default":{"description":""}}},"post":{}}},
	 "definitions":{"ok":{"type":"object"}}}`)
	if err == nil {
		for i := 0; i < 10; i++ {
			guard(func() {
				an := analysis.New(odd)
				an.SafeParamsFor("GET", "/p/{id}", func(spec.Parameter, error) bool { return false })
				an.SafeParamsFor("GET", "/p/{id}", func(spec.Parameter, error) bool { return true })
				an.SafeParametersFor("g", func(spec.Parameter, error) bool { return false })
				an.SafeParametersFor("nope", nil)
				an.SafeParamsFor("POST", "/nope", nil)
				_, _ = an.OperationFor("TRACE", "/p/{id}")
				_, _, _, _ = an.OperationForName("nope")
			})
			guard(func() { analysis.New(odd).ParamsFor("GET", "/p/{id}") }) // panics: the plain variant on a bad $ref
			guard(func() { analysis.FixEmptyResponseDescriptions(odd) })
			guard(func() {
				m, _ := h.LoadSwagger(`{"swagger":"2.0","paths":{"/p/{id}":{"get":{"operationId":"g","responses":{"200":{"description":"m"}}}}},"definitions":{"ok":{"type":"string"}}}`)
				p, _ := h.LoadSwagger(`{"swagger":"2.0","paths":{"/p/{id}":{"get":{"operationId":"g","responses":{"200":{"description":"p"}}}}},"definitions":{"ok":{"type":"object"}}}`)
				analysis.Mixin(p, m)
			})
		}
	}
	mcrt.Reset(mcrt.Asc, nil, 0)
	return n
}

package props

import (
	"encoding/json"
	"fmt"
	"reflect"
	"sort"
	"strings"

	"github.com/go-openapi/spec"

	"verif/mc/h"
	"verif/mc/mcrt"
	"verif/mc/mcx"
	"verif/mc/oracle"
)

// ---- C15: effective parameters of an operation ----

// parameter alternatives of one list slot
var c15Alts = []string{"absent", "query:id", "query:limit", "header:id", "header:limit", "ref:sp", "ref:sp2", "ref:dangling", "ref:notparam", "query:ID", "header:ID", "ref:esc0", "ref:esc1", "ref:esc2", "ref:esc3", "query:id+ext"}

// shared parameters whose names need escaping in a $ref (JSON-pointer escaping, then URL escaping, as a careful author writes them)
var c15Esc = []struct{ Name, Ref string }{{"a/b", "#/parameters/a~1b"}, {"pet owner", "#/parameters/pet%20owner"}, {"t~x", "#/parameters/t~0x"}, {"{c}", "#/parameters/%7Bc%7D"}}

func c15Param(alt, origin string) any {
	switch {
	case alt == "absent":
		return nil
	case strings.HasPrefix(alt, "ref:"):
		switch alt[4:] {
		case "sp":
			return J{"$ref": "#/parameters/sp"}
		case "sp2":
			return J{"$ref": "#/parameters/sp2"}
		case "dangling":
			return J{"$ref": "#/parameters/nope"}
		case "esc0", "esc1", "esc2", "esc3":
			return J{"$ref": c15Esc[alt[7]-'0'].Ref}
		default:
			return J{"$ref": "#/definitions/notparam"}
		}
	}
	i := strings.Index(alt, ":")
	if strings.HasSuffix(alt, "+ext") {
		// the same (in, name) as the plain alternative, carrying vendor extensions (a code-generation name among them)
		return J{"name": strings.TrimSuffix(alt[i+1:], "+ext"), "in": alt[:i], "type": "string", "description": origin, "x-go-name": "OtherName", "x-order": 7}
	}
	return J{"name": alt[i+1:], "in": alt[:i], "type": "string", "description": origin}
}

func c15List(x *mcx.Exec, label string, max int) []any {
	var l []any
	first := 0
	for i := 0; i < max; i++ {
		a := x.Choose(mcx.INPUT, len(c15Alts), fmt.Sprintf("%s[%d]", label, i))
		if a == 0 {
			break
		}
		if i == 0 {
			first = a
		}
		l = append(l, c15Param(c15Alts[a], fmt.Sprintf("%s%d", label, i)))
	}
	// a fixed third element behind a full list (the third and later entries of a list)
	if len(l) == max && label == "path" && first == 1 && x.Choose(mcx.INPUT, 2, label+"[third]") == 1 {
		// exactly one more: a decoded list of three has spare capacity (an append on it writes into the document's array)
		l = append(l, c15Param("header:limit", label+"Third"))
	}
	return l
}

func c15Gen(x *mcx.Exec, method string, max int) J {
	doc := J{"swagger": "2.0", "info": J{"title": "t", "version": "1"},
		"parameters":  J{"sp": J{"name": "id", "in": "query", "type": "string", "description": "shared"}, "sp2": J{"name": "limit", "in": "header", "type": "integer", "description": "shared2"}},
		"definitions": J{"notparam": J{"type": "object"}},
	}
	for i, e := range c15Esc {
		doc["parameters"].(J)[e.Name] = J{"name": fmt.Sprintf("esc%d", i), "in": "query", "type": "string", "description": "shared " + e.Name}
	}
	if method != "get" {
		delete(doc, "info") // an optional part as far as loading is concerned: absent in the documents of the other six methods
	}
	if x.Choose(mcx.INPUT, 2, "no paths") == 1 {
		return doc
	}
	pi := J{}
	if l := c15List(x, "path", max); l != nil {
		pi["parameters"] = l
	}
	op := J{"operationId": "theOp", "responses": J{"200": J{"description": "ok"}}}
	if l := c15List(x, "op", max); l != nil {
		op["parameters"] = l
	}
	pi[method] = op
	if x.Choose(mcx.INPUT, 2, "second op without id") == 1 {
		other := "post"
		if method == "post" {
			other = "get"
		}
		pi[other] = J{"responses": J{"200": J{"description": "ok"}}, "parameters": []any{c15Param("query:limit", "other")}}
	}
	paths := J{"/a/{id}": pi, "/b": J{"parameters": []any{c15Param("query:id", "pathb")}}}
	// further operations with their own ids in other path items: lookups by id are then issued in several orders on one
	// analyzer (an index of ids that is built lazily or partially is only wrong for a later lookup)
	{
		// a path spelled so that any normalisation (cleaning, unescaping, case folding) alters it
		paths["/C d/~e/./{x}/"] = J{"parameters": []any{c15Param("header:limit", "odd")},
			"get": J{"operationId": "opOdd", "parameters": []any{c15Param("query:id", "oddq")}, "responses": J{"200": J{"description": "ok"}}}}
		paths["/0first"] = J{"get": J{"operationId": "opFirst", "parameters": []any{c15Param("query:limit", "first")}, "responses": J{"200": J{"description": "ok"}}}}
		paths["/c2"] = J{"get": J{"operationId": "opc", "parameters": []any{c15Param("header:limit", "c2")}, "responses": J{"200": J{"description": "ok"}}}}
		paths["/c"] = J{"get": J{"operationId": "opC", "parameters": []any{c15Param("query:limit", "c")}, "responses": J{"200": J{"description": "ok"}}}}
		paths["/d"] = J{"parameters": []any{c15Param("header:id", "pathd")},
			"put": J{"operationId": "opD", "parameters": []any{J{"$ref": "#/parameters/sp"}}, "responses": J{"200": J{"description": "ok"}}}}
	}
	doc["paths"] = paths
	return doc
}

type c15Expect struct {
	Params  map[string]any // key in#name -> param
	Errors  []string       // refs reported, in order
	GoNamed map[string]any // same, keyed by in#UPPER(name): the derived-key semantics of the implementation
}

// refparams: reference model. mode: "continue" | "stop" ; stopAll: a stop also ends the processing of the next list.
func refparams(doc map[string]any, pathItem, op map[string]any, mode string, stopAll bool) *c15Expect {
	e := &c15Expect{Params: map[string]any{}, GoNamed: map[string]any{}}
	shared := asObj(doc["parameters"])
	stopped := false
	process := func(list []any) {
		for _, p := range list {
			pm := asObj(p)
			if ref, isRef := pm["$ref"].(string); isRef {
				toks, okp := oracle.PointerTokens(ref, true)
				var target any
				ok := false
				if okp && len(toks) == 2 && toks[0] == "parameters" {
					target, ok = shared[toks[1]]
				}
				if !ok {
					e.Errors = append(e.Errors, ref)
					if mode == "continue" {
						continue
					}
					stopped = true
					return
				}
				pm = asObj(target)
			}
			k := fmt.Sprint(pm["in"]) + "#" + fmt.Sprint(pm["name"])
			e.Params[k] = pm
			e.GoNamed[fmt.Sprint(pm["in"])+"#"+strings.ToUpper(fmt.Sprint(pm["name"]))] = pm
		}
	}
	process(asArr(pathItem["parameters"]))
	if !(stopped && stopAll) {
		process(asArr(op["parameters"]))
	}
	return e
}

func paramSet(m map[string]any) []string {
	var out []string
	for _, v := range m {
		out = append(out, mustJSON(v))
	}
	sort.Strings(out)
	return out
}

func c15Check(docJSON string, pol mcrt.Policy) (sig, what string, nontrivial bool, outcome string) {
	an, obs, doc := analyzeDoc(docJSON, pol)
	if obs == nil {
		return "", "", false, ""
	}
	if obs.Out.Crashed() {
		return "crash " + obs.Out.Class() + " at " + obs.Out.PanicFrame, obs.Out.Panic, false, "crash"
	}
	fail := func(s, w string) {
		if sig == "" {
			sig, what = s, w
		}
	}
	paths := asObj(doc["paths"])
	var sb strings.Builder
	type query struct {
		method, path string
	}
	var queries []query
	for _, p := range []string{"/a/{id}", "/b", "/nope", "/C d/~e/./{x}/"} {
		for _, m := range methods7 {
			queries = append(queries, query{m, p})
		}
	}
	hasBad := func(list []any) bool {
		for _, p := range list {
			if r, ok := asObj(p)["$ref"].(string); ok {
				toks, okp := oracle.PointerTokens(r, true)
				if !okp || len(toks) != 2 || toks[0] != "parameters" || asObj(doc["parameters"])[toks[1]] == nil {
					return true
				}
			}
		}
		return false
	}
	compare := func(view, desc string, got []string, noRef bool, exp, expAlt *c15Expect, goNamed *c15Expect) {
		if !noRef {
			fail(view+" returns an unresolved $ref placeholder", desc)
			return
		}
		if reflect.DeepEqual(got, paramSet(exp.Params)) || (expAlt != nil && reflect.DeepEqual(got, paramSet(expAlt.Params))) || (len(got) == 0 && len(exp.Params) == 0) {
			return
		}
		if reflect.DeepEqual(got, paramSet(goNamed.GoNamed)) {
			fail("parameters with different names merged by their Go-ified name", fmt.Sprintf("%s %s: got %v, want %v (names that differ only by case are different parameters)", view, desc, got, paramSet(exp.Params)))
			return
		}
		fail(view+" wrong", fmt.Sprintf("%s: got %v want %v", desc, got, paramSet(exp.Params)))
	}
	toSet := func(m map[string]spec.Parameter) ([]string, bool) {
		var out []string
		ok := true
		for _, v := range m {
			if v.Ref.String() != "" {
				ok = false
			}
			out = append(out, string(h.Marshal(v)))
		}
		for i := range out {
			out[i] = mustJSON(h.ToJSON([]byte(out[i])))
		}
		sort.Strings(out)
		return out, ok
	}
	listSet := func(l []spec.Parameter) ([]string, bool) {
		m := map[string]spec.Parameter{}
		for i, v := range l {
			m[fmt.Sprint(i)] = v
		}
		return toSet(m)
	}
	for _, q := range queries {
		pi := asObj(paths[q.path])
		op := asObj(pi[q.method])
		exists := op != nil
		if !exists {
			pi, op = map[string]any{}, map[string]any{}
		}
		bad := exists && (hasBad(asArr(pi["parameters"])) || hasBad(asArr(op["parameters"])))
		nontrivial = nontrivial || (exists && len(asArr(pi["parameters"]))+len(asArr(op["parameters"])) > 1)
		for _, mode := range []string{"continue", "stop", "plain"} {
			for _, spelled := range []string{q.method, strings.ToUpper(q.method)} {
				var reported []string
				cb := func(p spec.Parameter, err error) bool {
					reported = append(reported, p.Ref.String())
					return mode == "continue"
				}
				var o h.Outcome
				var got map[string]spec.Parameter
				h.Guard(&o, func() {
					switch mode {
					case "plain":
						got = an.ParamsFor(spelled, q.path)
					default:
						got = an.SafeParamsFor(spelled, q.path, cb)
					}
				})
				desc := fmt.Sprintf("%s(%q,%q) exists=%v", map[string]string{"plain": "ParamsFor", "continue": "SafeParamsFor[continue]", "stop": "SafeParamsFor[stop]"}[mode], spelled, q.path, exists)
				if o.Horizon {
					fail("diverges", desc)
					continue
				}
				if mode == "plain" {
					if bad && o.Panic == "" {
						fail("plain variant does not panic on an unresolvable parameter $ref", desc)
					}
					if !bad && o.Panic != "" {
						fail("crash: ParamsFor panics although every parameter $ref resolves ("+existsClass(exists, paths != nil)+") at "+o.PanicFrame, desc+": "+o.Panic)
					}
					if o.Panic != "" {
						continue
					}
				} else if o.Panic != "" {
					fail("crash: SafeParamsFor panics ("+existsClass(exists, paths != nil)+") at "+o.PanicFrame, desc+": "+o.Panic)
					continue
				}
				m := mode
				if m == "plain" {
					m = "continue"
				}
				exp := refparams(doc, pi, op, m, false)
				var alt *c15Expect
				if m == "stop" {
					alt = refparams(doc, pi, op, m, true)
				}
				gs, noRef := toSet(got)
				compare("ParamsFor/"+mode, desc, gs, noRef, exp, alt, refparams(doc, pi, op, m, false))
				if mode != "plain" {
					okRep := reflect.DeepEqual(reported, exp.Errors) || (alt != nil && reflect.DeepEqual(reported, alt.Errors)) || (len(reported) == 0 && len(exp.Errors) == 0)
					if !okRep {
						fail("callback not invoked for an unresolvable parameter $ref ("+mode+")", fmt.Sprintf("%s: reported %v, expected %v", desc, reported, exp.Errors))
					}
				}
				fmt.Fprintf(&sb, "%s=%v/%v;", desc, gs, reported)
			}
		}
	}
	// by operation id
	for _, id := range []string{"theOp", "no-such-op", "opC", "THEOP", "opOdd", "opD", "theOp", "OPc", "opFirst", "opc"} {
		var pi, op map[string]any
		for _, p := range h.SortedKeys(paths) {
			for _, m := range methods7 {
				if o := asObj(asObj(paths[p])[m]); o != nil && o["operationId"] == id {
					pi, op = asObj(paths[p]), o
				}
			}
		}
		exists := op != nil
		if !exists {
			pi, op = map[string]any{}, map[string]any{}
		}
		bad := exists && (hasBad(asArr(pi["parameters"])) || hasBad(asArr(op["parameters"])))
		for _, mode := range []string{"continue", "stop", "plain"} {
			var reported []string
			cb := func(p spec.Parameter, err error) bool {
				reported = append(reported, p.Ref.String())
				return mode == "continue"
			}
			var o h.Outcome
			var got []spec.Parameter
			h.Guard(&o, func() {
				if mode == "plain" {
					got = an.ParametersFor(id)
				} else {
					got = an.SafeParametersFor(id, cb)
				}
			})
			desc := fmt.Sprintf("%s(%q) exists=%v", map[string]string{"plain": "ParametersFor", "continue": "SafeParametersFor[continue]", "stop": "SafeParametersFor[stop]"}[mode], id, exists)
			if mode == "plain" {
				if bad && o.Panic == "" {
					fail("plain variant does not panic on an unresolvable parameter $ref", desc)
				}
				if !bad && o.Panic != "" {
					fail("crash: ParametersFor panics although every parameter $ref resolves ("+existsClass(exists, paths != nil)+") at "+o.PanicFrame, desc+": "+o.Panic)
				}
				if o.Panic != "" {
					continue
				}
			} else if o.Panic != "" {
				fail("crash: SafeParametersFor panics ("+existsClass(exists, paths != nil)+") at "+o.PanicFrame, desc+": "+o.Panic)
				continue
			}
			m := mode
			if m == "plain" {
				m = "continue"
			}
			exp := refparams(doc, pi, op, m, false)
			var alt *c15Expect
			if m == "stop" {
				alt = refparams(doc, pi, op, m, true)
			}
			gs, noRef := listSet(got)
			compare("ParametersFor/"+mode, desc, gs, noRef, exp, alt, exp)
			if mode != "plain" {
				okRep := reflect.DeepEqual(reported, exp.Errors) || (alt != nil && reflect.DeepEqual(reported, alt.Errors)) || (len(reported) == 0 && len(exp.Errors) == 0)
				if !okRep {
					fail("callback not invoked for an unresolvable parameter $ref ("+mode+")", fmt.Sprintf("%s: reported %v, expected %v", desc, reported, exp.Errors))
				}
			}
			fmt.Fprintf(&sb, "%s=%d/%d;", desc, len(got), len(reported))
		}
	}
	return sig, what, nontrivial, "q:" + sb.String()
}

func existsClass(opExists, hasPaths bool) string {
	switch {
	case opExists:
		return "existing operation"
	case !hasPaths:
		return "document without paths"
	}
	return "no such operation"
}

func init() {
	register(&Check{ID: "C15", Run: func(c *Ctx) {
		c.Bounds["parameter_alternatives"] = c15Alts
		c.Bounds["list_length"] = 2
		c.Bounds["lookups"] = "7 methods x 2 spellings x 3 paths x {continue, stop, plain}; by id: existing and unknown x 3 modes"
		var k int64
		for mi, m := range methods7 {
			// quick: lists of <= 2 parameters under get, <= 1 under the other methods; thorough: <= 2 under every method
			max := 2
			if mi > 0 && !c.Thorough() {
				max = 1
			}
			e := mcx.New()
			var doc J
			e.Run(func(x *mcx.Exec) { doc = c15Gen(x, m, max) }, func(x *mcx.Exec) bool {
				k++
				if !c.Mine(k - 1) {
					return true
				}
				c.ChoicePoints += int64(len(x.Points))
				dj := mustJSON(doc)
				nt := false
				for _, pol := range []mcrt.Policy{mcrt.Asc, mcrt.Desc} {
					c.Begin(&Violation{Signature: "fatal crash of the process", Generator: "c15", Input: J{"doc": json.RawMessage(dj)}, Env: J{"policy": int(pol)}})
					sig, what, nontrivial, outcome := c15Check(dj, pol)
					if outcome == "" && sig == "" {
						c.Count("not_loadable", 1)
						continue
					}
					c.Execs++
					c.Validated++
					c.Outcome(hashStr(outcome))
					nt = nt || nontrivial
					if sig != "" {
						c.Violate(&Violation{Signature: sig, What: what, Generator: "c15", Input: J{"doc": json.RawMessage(dj), "choices": x.Choices(), "method": m}, Env: J{"policy": int(pol)}})
					}
				}
				if nt {
					c.NonTrivial++
					if len(x.Deviations()) >= 3 {
						c.Sample(J{"doc": json.RawMessage(dj)})
					}
				}
				return !c.Expired()
			})
		}
	}, Replay: replayDoc(c15Check)})
}

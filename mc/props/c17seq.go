package props

import (
	"encoding/json"
	"fmt"

	"github.com/go-openapi/spec"

	"verif/mc/h"
	"verif/mc/mcrt"
)

// ---- C17, second part: explicit-state search over call/edit sequences on ONE live primary ----
//
// The merge rules hold for every call of Mixin, whatever happened to the primary object before: an earlier Mixin, a
// section emptied again by the caller (or by Flatten with RemoveUnused), a reload. States are live *spec.Swagger
// primaries; transitions are
//   mix(i)       Mixin(primary, fresh copy of mixin i)
//   clear(sec)   the caller sets one section of the primary back to nil
//   reload       serialise + load (same document, new object identity)
// Every sequence up to the depth bound that ends with a mix is replayed from a fresh load of each start document; after
// EVERY mix of the sequence the result is compared with the reference model applied to the primary as it was just before.

type c17Op struct {
	Kind string `json:"kind"` // mix | clear | reload
	Arg  string `json:"arg,omitempty"`
}

func (o c17Op) String() string {
	if o.Arg != "" {
		return o.Kind + "(" + o.Arg + ")"
	}
	return o.Kind
}

var c17SeqSections = []string{"definitions", "parameters", "responses", "securityDefinitions", "paths", "tags+lists"}

func c17SeqMixins() []string {
	full := func(tag string) J {
		return J{"swagger": "2.0", "info": J{"title": "t-" + tag, "x-i-common": tag}, "externalDocs": J{"description": "ed-" + tag}, "host": "host-" + tag,
			"paths":               J{"/patK1": mixValue("paths", "/patK1", tag), "/pat" + tag: mixValue("paths", "/pat"+tag, tag)},
			"definitions":         J{"defK1": mixValue("definitions", "defK1", tag), "def" + tag: mixValue("definitions", "def"+tag, tag)},
			"parameters":          J{"parK1": mixValue("parameters", "parK1", tag), "par" + tag: mixValue("parameters", "par"+tag, tag)},
			"responses":           J{"resK1": mixValue("responses", "resK1", tag), "res" + tag: mixValue("responses", "res"+tag, tag)},
			"securityDefinitions": J{"secK1": mixValue("securityDefinitions", "secK1", tag), "sec" + tag: mixValue("securityDefinitions", "sec"+tag, tag)},
			"consumes":            []any{"x", "c-" + tag}, "produces": []any{"y"}, "schemes": []any{"https"},
			"tags":     []any{J{"name": "tagOne", "description": tag}, J{"name": "tag-" + tag, "description": tag}},
			"security": []any{J{"secK1": []any{}}, J{"sec" + tag: []any{"s"}}},
			"x-top-common": tag,
		}
	}
	return []string{mustJSON(full("M1")), mustJSON(full("M2"))}
}

func c17SeqStartDocs() []string {
	return []string{
		mustJSON(J{"swagger": "2.0"}),
		mustJSON(J{"swagger": "2.0", "info": J{"title": "t-P"}, "paths": J{"/patK1": mixValue("paths", "/patK1", "P")},
			"definitions": J{"defK1": mixValue("definitions", "defK1", "P")}, "parameters": J{"parK1": mixValue("parameters", "parK1", "P")},
			"responses": J{"resK1": mixValue("responses", "resK1", "P")}, "securityDefinitions": J{"secK1": mixValue("securityDefinitions", "secK1", "P")},
			"tags": []any{J{"name": "tagOne", "description": "P"}}, "consumes": []any{"x"}, "security": []any{J{"secK1": []any{}}}}),
	}
}

func c17ApplyClear(p *spec.Swagger, sec string) {
	switch sec {
	case "definitions":
		p.Definitions = nil
	case "parameters":
		p.Parameters = nil
	case "responses":
		p.Responses = nil
	case "securityDefinitions":
		p.SecurityDefinitions = nil
	case "paths":
		p.Paths = nil
	case "tags+lists":
		p.Tags, p.Consumes, p.Produces, p.Schemes, p.Security = nil, nil, nil, nil, nil
	}
}

func c17RunSeq(docJSON string, mixins []string, seq []c17Op, pol mcrt.Policy) (sig, what, final string, mixes int) {
	p, err := h.LoadSwagger(docJSON)
	if err != nil {
		return "", "", "", 0
	}
	for i, op := range seq {
		switch op.Kind {
		case "clear":
			c17ApplyClear(p, op.Arg)
		case "reload":
			p2, err := h.LoadSwagger(string(h.Marshal(p)))
			if err != nil {
				return "", "", "", mixes
			}
			p = p2
		case "mix":
			mi := 0
			if op.Arg == "M2" {
				mi = 1
			}
			m, err := h.LoadSwagger(mixins[mi])
			if err != nil {
				return "", "", "", mixes
			}
			pj, _ := h.ToJSON(h.Marshal(p)).(map[string]any)
			mj, _ := h.ToJSON(h.Marshal(m)).(map[string]any)
			mixes++
			c := &mixCase{Primary: mustJSON(pj), Mixins: []string{mixins[mi]}}
			if s, w, _, _ := c17Step(c, p, []*spec.Swagger{m}, pj, []map[string]any{mj}, pol); s != "" {
				return "after a sequence of calls and edits on one primary: " + s, fmt.Sprintf("step %d of %v: %s", i, seq, w), "", mixes
			}
		}
	}
	return "", "", string(h.Marshal(p)), mixes
}

func c17Sequences(c *Ctx) {
	depth := 3
	if c.Thorough() {
		depth = 4
	}
	alpha := []c17Op{{Kind: "mix", Arg: "M1"}, {Kind: "mix", Arg: "M2"}, {Kind: "reload"}}
	for _, s := range c17SeqSections {
		alpha = append(alpha, c17Op{Kind: "clear", Arg: s})
	}
	mixins := c17SeqMixins()
	docs := c17SeqStartDocs()
	c.Bounds["sequence_depth"] = depth
	c.Bounds["sequence_alphabet"] = len(alpha)
	c.Bounds["sequence_start_documents"] = len(docs)
	var k int64
	var rec func(di int, seq []c17Op)
	run := func(di int, seq []c17Op) {
		k++
		if !c.Mine(k - 1) {
			return
		}
		for _, pol := range []mcrt.Policy{mcrt.Asc, mcrt.Desc} {
			in := J{"doc": json.RawMessage(docs[di]), "seq": append([]c17Op(nil), seq...)}
			c.Begin(&Violation{Signature: "fatal crash of the process", Generator: "c17seq", Input: in, Env: J{"policy": int(pol)}})
			sig, what, final, mixes := c17RunSeq(docs[di], mixins, seq, pol)
			c.Execs++
			c.Validated += int64(mixes)
			c.ChoicePoints += int64(len(seq))
			c.Outcome(hashStr(final + sig))
			if sig != "" {
				c.Violate(&Violation{Signature: sig, What: what, Generator: "c17seq", Input: in, Env: J{"policy": int(pol)}})
			}
		}
		c.Inputs++
		c.NonTrivial++
	}
	rec = func(di int, seq []c17Op) {
		if c.Expired() {
			return
		}
		if len(seq) >= 2 && seq[len(seq)-1].Kind == "mix" {
			run(di, seq)
		}
		if len(seq) == depth {
			return
		}
		for _, op := range alpha {
			if op.Kind == "reload" && (len(seq) == 0 || seq[len(seq)-1].Kind == "reload") {
				continue
			}
			rec(di, append(seq, op))
		}
	}
	for di := range docs {
		rec(di, nil)
	}
}

func c17SeqReplay(v *Violation) string {
	in := v.Input.(map[string]any)
	var seq []c17Op
	_ = json.Unmarshal([]byte(mustJSON(in["seq"])), &seq)
	pol := mcrt.Asc
	if p, ok := v.Env["policy"].(float64); ok {
		pol = mcrt.Policy(int(p))
	}
	sig, what, _, _ := c17RunSeq(mustJSON(in["doc"]), c17SeqMixins(), seq, pol)
	if sig == "" {
		return ""
	}
	return sig + ": " + what
}

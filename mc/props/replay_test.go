package props

import (
	"encoding/json"
	"flag"
	"os"
	"testing"
)

var replayFile = flag.String("replay", "", "violation file written by a check (replayed without the explorer)")

// TestReplay re-executes one recorded violation as a plain unit test against /repo (uninstrumented build):
//
//	cd /verif/mc && go test ./props -run TestReplay -replay=/verif/replays/C19/<file>.json
//
// It fails iff the violation reproduces. Violations that need a map-order deviation or a schedule are
// replayed by `./check replay <file>` (instrumented build) instead.
func TestReplay(t *testing.T) {
	if *replayFile == "" {
		t.Skip("no -replay file given")
	}
	b, err := os.ReadFile(*replayFile)
	if err != nil {
		t.Fatal(err)
	}
	var v Violation
	if err := json.Unmarshal(b, &v); err != nil {
		t.Fatal(err)
	}
	ch := Registry[v.Property]
	if ch == nil || ch.Replay == nil {
		t.Fatalf("no replayer for %s", v.Property)
	}
	for _, hb := range v.History {
		var hv Violation
		if json.Unmarshal(hb, &hv) == nil {
			func() {
				defer func() { _ = recover() }()
				ch.Replay(&hv)
			}()
		}
	}
	if msg := ch.Replay(&v); msg != "" {
		t.Fatalf("violation of %s reproduced: %s", v.Property, msg)
	}
}

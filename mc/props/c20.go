package props

import (
	"encoding/json"
	"fmt"
	"sort"
	"strings"

	"github.com/go-openapi/analysis"
	"github.com/go-openapi/spec"

	"verif/mc/h"
	"verif/mc/mcrt"
	"verif/mc/oracle"
)

// ---- C20: schema classification ----

func c20Root() J {
	ref := func(n string) J { return J{"$ref": "#/definitions/" + n} }
	return J{
		"prim":        J{"type": "string"},
		"num":         J{"type": "number"},
		"fmtd":        J{"type": "string", "format": "date-time"},
		"fmtOnly":     J{"format": "uuid"},
		"enumd":       J{"type": "string", "enum": []any{"a", "b"}},
		"emptyobj":    J{"type": "object"},
		"anything":    J{},
		"obj":         J{"type": "object", "properties": J{"a": J{"type": "string"}}},
		"objNoType":   J{"properties": J{"a": J{"type": "integer"}}},
		"mapd":        J{"type": "object", "additionalProperties": J{"type": "string"}},
		"mapAny":      J{"type": "object", "additionalProperties": true},
		"mapOfObj":    J{"type": "object", "additionalProperties": ref("obj")},
		"extobj":      J{"type": "object", "properties": J{"a": J{"type": "string"}}, "additionalProperties": J{"type": "string"}},
		"arr":         J{"type": "array", "items": J{"type": "string"}},
		"arrNoItems":  J{"type": "array"},
		"arrOfObj":    J{"type": "array", "items": ref("obj")},
		"tuple":       J{"type": "array", "items": []any{J{"type": "string"}, J{"type": "integer"}}},
		"tupleExtra":  J{"type": "array", "items": []any{J{"type": "string"}}, "additionalItems": J{"type": "integer"}},
		"tupleAny":    J{"type": "array", "items": []any{J{"type": "string"}}, "additionalItems": true},
		"allofd":      J{"allOf": []any{ref("obj"), J{"type": "object", "properties": J{"b": J{"type": "string"}}}}},
		"disc":        J{"type": "object", "discriminator": "kind", "properties": J{"kind": J{"type": "string"}}},
		"allofExt":    J{"allOf": []any{ref("obj")}, "additionalProperties": J{"type": "string"}},
		"allofExtAny": J{"type": "object", "allOf": []any{ref("obj")}, "additionalProperties": true},
		"alias":       ref("obj"),
		"aliasArr":    ref("arr"),
		"alias2":      ref("alias"),
		"node":        J{"type": "object", "properties": J{"next": ref("node")}},
		"ma":          J{"type": "object", "properties": J{"b": ref("mb")}},
		"mb":          J{"type": "object", "properties": J{"a": ref("ma")}},
		"arrSelf":     J{"type": "array", "items": ref("arrSelf")},
		"mapSelf":     J{"type": "object", "additionalProperties": ref("mapSelf")},
		"arrMapA":     J{"type": "array", "items": ref("arrMapB")},
		"arrMapB":     J{"type": "object", "additionalProperties": ref("arrMapA")},
		"aliasSelf":   ref("arrSelf"),
		// recursion with an inline container level between the container and the reference back to it
		"forestArr":   J{"type": "array", "items": ref("mapSelf")},
		"groveMap":    J{"type": "object", "additionalProperties": ref("arrSelf")},
		"aliasForest": ref("forestArr"),
		"matrix":      J{"type": "array", "items": J{"type": "array", "items": ref("matrix")}},
		"tree":        J{"type": "array", "items": J{"type": "object", "additionalProperties": ref("tree")}},
		"forest":      J{"type": "object", "additionalProperties": J{"type": "array", "items": ref("forest")}},
		"mapMap":      J{"type": "object", "additionalProperties": J{"type": "object", "additionalProperties": ref("mapMap")}},
		"tupleSelf":   J{"type": "array", "items": []any{J{"type": "string"}, ref("tupleSelf")}},
		"tupleOne":    J{"type": "array", "items": []any{J{"type": "string"}}},
		"extraSelf":   J{"type": "array", "items": []any{J{"type": "string"}}, "additionalItems": ref("extraSelf")},
		"allOfSelf":   J{"allOf": []any{ref("obj"), J{"type": "object", "properties": J{"again": ref("allOfSelf")}}}},
		"arrOfNode":   J{"type": "array", "items": ref("node")},
	}
}

// c20Level builds the schemas of nesting level d from those of level d-1.
func c20Leaves() []J {
	root := c20Root()
	var out []J
	names := make([]string, 0, len(root))
	for n := range root {
		names = append(names, n)
	}
	sort.Strings(names)
	for _, n := range names {
		if _, isRef := root[n].(J)["$ref"]; !isRef {
			out = append(out, root[n].(J))
		}
	}
	for _, n := range names {
		out = append(out, J{"$ref": "#/definitions/" + n})
	}
	// $refs that are JSON pointers to a sub-schema of a definition (three or more tokens)
	for _, ptr := range []string{"arr/items", "obj/properties/a", "tuple/items/1", "tupleExtra/additionalItems", "mapOfObj/additionalProperties", "arrOfObj/items",
		"mapd/additionalProperties", "matrix/items", "extobj/properties/a", "allofd/allOf/1", "disc/properties/kind"} {
		out = append(out, J{"$ref": "#/definitions/" + ptr})
	}
	// empty versus absent: a keyword that is present with an empty list / object says the same as no keyword at all
	// (these are decoded directly into spec.Schema: the lists are non-nil and empty there, and nil behind a $ref)
	out = append(out,
		J{"allOf": []any{}},
		J{"type": "object", "allOf": []any{}},
		J{"type": "object", "properties": J{}},
		J{"type": "object", "properties": J{}, "additionalProperties": J{"type": "string"}},
		J{"type": "object", "allOf": []any{}, "additionalProperties": J{"type": "string"}},
		J{"type": "string", "enum": []any{}},
		J{"type": "object", "required": []any{}},
	)
	return out
}

func c20Compose(children []J) []J {
	var out []J
	for _, c := range children {
		out = append(out,
			J{"type": "object", "properties": J{"p": c}},
			J{"type": "object", "additionalProperties": c},
			J{"type": "object", "properties": J{"p": J{"type": "string"}}, "additionalProperties": c},
			J{"type": "array", "items": c},
			J{"type": "array", "items": []any{c, J{"type": "string"}}},
			J{"type": "array", "items": []any{J{"type": "string"}}, "additionalItems": c},
			J{"allOf": []any{c, J{"type": "object", "properties": J{"q": J{"type": "string"}}}}},
			J{"allOf": []any{J{"type": "object", "properties": J{"q": J{"type": "string"}}}}, "additionalProperties": c},
		)
	}
	return out
}

type c20Flags struct {
	KnownType, Simple, Array, SimpleArray, Map, SimpleMap, ExtendedObject, Tuple, TupleWithExtra, BaseType, Enum bool
}

func flagsOf(a *analysis.AnalyzedSchema) c20Flags {
	return c20Flags{a.IsKnownType, a.IsSimpleSchema, a.IsArray, a.IsSimpleArray, a.IsMap, a.IsSimpleMap, a.IsExtendedObject, a.IsTuple, a.IsTupleWithExtra, a.IsBaseType, a.IsEnum}
}

// refclass: the documented rules, evaluated on generic JSON with $refs followed through the root definitions.
type c20Class struct {
	Complex, Array, Map, Tuple, TupleWithExtra, Enum, Known, Extended bool
	Determined                                                        bool
}

func refclass(s map[string]any, defs map[string]any) c20Class {
	seen := map[string]bool{}
	for {
		r, ok := s["$ref"].(string)
		if !ok {
			break
		}
		if seen[r] {
			return c20Class{} // a pure $ref cycle denotes nothing
		}
		seen[r] = true
		// the $ref is a JSON pointer into the root (a definition, or a sub-schema of one)
		toks, okp := oracle.PointerTokens(r, true)
		var target any
		if okp {
			target, _ = oracle.Resolve(map[string]any{"definitions": defs}, toks)
		}
		s = asObj(deepCopyJSON(target))
	}
	var c c20Class
	c.Determined = true
	typ, _ := s["type"].(string)
	props := len(asObj(s["properties"])) > 0
	allOf := len(asArr(s["allOf"])) > 0
	_, tuple := s["items"].([]any)
	addProps := s["additionalProperties"] != nil && s["additionalProperties"] != false
	addItems := s["additionalItems"] != nil && s["additionalItems"] != false
	isObj := typ == "" || typ == "object"
	c.Enum = len(asArr(s["enum"])) > 0
	c.Tuple = tuple && !addItems
	c.TupleWithExtra = tuple && addItems
	c.Array = typ == "array" && !tuple
	c.Map = isObj && addProps && !props && !allOf
	c.Extended = isObj && addProps && (props || allOf)
	switch typ {
	case "string", "integer", "number", "boolean":
		c.Known = true
	}
	// documented rule: object with properties, allOf and tuples are complex; primitives, arrays, maps and empty objects are not
	c.Complex = !c.Known && !c.Array && !c.Map && ((isObj && (props || allOf)) || tuple)
	return c
}

type c20Obs struct {
	Direct, ViaRef c20Flags
	Out            h.Outcome
}

// c20Check classifies schema s (inline, and through a $ref to a copy of it placed in the root) and applies the oracles.
func c20Check(schemaJSON string, pol mcrt.Policy) (sig, what string, nontrivial bool, outcome string) {
	rootDefs := c20Root()
	var sj map[string]any
	_ = json.Unmarshal([]byte(schemaJSON), &sj)
	rootDefs["gen"] = sj
	rootDoc := J{"swagger": "2.0", "info": J{"title": "t", "version": "1"}, "paths": J{}, "definitions": rootDefs}
	sw, err := h.LoadSwagger(mustJSON(rootDoc))
	if err != nil {
		return "", "", false, ""
	}
	sch := new(spec.Schema)
	if err := json.Unmarshal([]byte(schemaJSON), sch); err != nil {
		return "", "", false, ""
	}
	before := string(h.Marshal(sw))
	mcrt.Reset(pol, nil, h.DefaultHorizon)
	var obs c20Obs
	var direct, via *analysis.AnalyzedSchema
	var e1, e2 error
	h.Guard(&obs.Out, func() {
		direct, e1 = analysis.Schema(analysis.SchemaOpts{Schema: sch, Root: sw, BasePath: h.VRoot + "/root.json"})
		refsch := spec.RefSchema("#/definitions/gen")
		via, e2 = analysis.Schema(analysis.SchemaOpts{Schema: refsch, Root: sw, BasePath: h.VRoot + "/root.json"})
	})
	recursive := strings.Contains(schemaJSON, "Self") || strings.Contains(schemaJSON, "arrMap")
	if obs.Out.Crashed() {
		cls := "non-recursive schema"
		if recursive {
			cls = "schema reaching an array/map of itself"
		}
		return "classification " + obs.Out.Class() + " (" + cls + ") at " + obs.Out.PanicFrame, "Schema() " + obs.Out.Class() + ": " + obs.Out.Panic, true, "crash"
	}
	if e1 != nil || e2 != nil {
		return "classification returns an error on a resolvable schema", fmt.Sprint(e1, e2), true, "error"
	}
	if after := string(h.Marshal(sw)); after != before {
		return "classification modifies the root document", "", true, "mutation"
	}
	f := flagsOf(direct)
	outcome = fmt.Sprintf("%+v", f)
	nontrivial = strings.Contains(schemaJSON, "$ref") || strings.Count(schemaJSON, "{") > 2
	coherent := func(f c20Flags, which string) {
		if sig != "" {
			return
		}
		switch {
		case f.Simple != (f.KnownType || f.SimpleArray || f.SimpleMap):
			sig = "incoherent flags: IsSimpleSchema != IsKnownType||IsSimpleArray||IsSimpleMap"
		case f.SimpleArray && !f.Array:
			sig = "incoherent flags: IsSimpleArray without IsArray"
		case f.SimpleMap && !f.Map:
			sig = "incoherent flags: IsSimpleMap without IsMap"
		case f.Map && f.ExtendedObject:
			sig = "incoherent flags: IsMap and IsExtendedObject"
		case f.Tuple && f.TupleWithExtra:
			sig = "incoherent flags: IsTuple and IsTupleWithExtra"
		case f.Array && (f.Tuple || f.TupleWithExtra):
			sig = "incoherent flags: IsArray and tuple"
		}
		if sig != "" {
			what = fmt.Sprintf("%s classification of %s: %+v", which, schemaJSON, f)
		}
	}
	coherent(f, "direct")
	coherent(flagsOf(via), "via $ref")
	if sig == "" && flagsOf(via) != f {
		sig = "a $ref classifies differently from its target"
		d, v := fmt.Sprintf("%+v", f), fmt.Sprintf("%+v", flagsOf(via))
		what = fmt.Sprintf("schema %s: direct %s, through $ref %s", schemaJSON, d, v)
		// name the differing flags
		var diff []string
		df, vf := strings.Fields(strings.Trim(d, "{}")), strings.Fields(strings.Trim(v, "{}"))
		for i := range df {
			if df[i] != vf[i] {
				diff = append(diff, strings.Split(df[i], ":")[0])
			}
		}
		sig += " (" + strings.Join(diff, ",") + ")"
	}
	if sig == "" {
		c := refclass(sj, rootDefs)
		if c.Determined {
			complex := !f.Simple && !f.Array && !f.Map
			switch {
			case complex != c.Complex:
				sig = fmt.Sprintf("complexity differs from the documented rule (expected complex=%v)", c.Complex)
			case f.Array != c.Array:
				sig = "IsArray differs from the documented rule"
			case f.Map != c.Map:
				sig = "IsMap differs from the documented rule"
			case f.ExtendedObject != c.Extended:
				sig = "IsExtendedObject differs from the documented rule"
			case f.Tuple != c.Tuple || f.TupleWithExtra != c.TupleWithExtra:
				sig = "tuple flags differ from the documented rule"
			case f.Enum != c.Enum:
				sig = "IsEnum differs from the documented rule"
			}
			if sig != "" {
				what = fmt.Sprintf("schema %s: flags %+v, reference classification %+v", schemaJSON, f, c)
			}
		}
	}
	return sig, what, nontrivial, outcome
}

func init() {
	register(&Check{ID: "C20", Run: func(c *Ctx) {
		depth := 2
		if c.Thorough() {
			depth = 4
		}
		c.Bounds["nesting_depth"] = depth
		c.Bounds["root_definitions"] = len(c20Root())
		level := c20Leaves()
		c.Bounds["leaves"] = len(level)
		var k int64
		for d := 0; d <= depth; d++ {
			for _, s := range level {
				k++
				if !c.Mine(k - 1) {
					continue
				}
				sjs := mustJSON(s)
				nt := false
				for _, pol := range []mcrt.Policy{mcrt.Asc, mcrt.Desc} {
					c.Begin(&Violation{Signature: "fatal crash of the process", Generator: "c20", Input: J{"doc": json.RawMessage(sjs)}, Env: J{"policy": int(pol)}})
					sig, what, nontrivial, outcome := c20Check(sjs, pol)
					if outcome == "" && sig == "" {
						c.Count("not_loadable", 1)
						continue
					}
					c.Execs++
					c.Validated++
					c.Outcome(hashStr(outcome))
					nt = nt || nontrivial
					if sig != "" {
						c.Violate(&Violation{Signature: sig, What: what, Generator: "c20", Input: J{"doc": json.RawMessage(sjs), "depth": d}, Env: J{"policy": int(pol)}})
					}
				}
				if nt {
					c.NonTrivial++
					if d == depth {
						c.Sample(J{"schema": json.RawMessage(sjs)})
					}
				}
				if c.Expired() {
					return
				}
			}
			if d < depth {
				level = c20Compose(level)
			}
		}
	}, Replay: replayDoc(c20Check)})
}

package props

import (
	"encoding/json"
	"fmt"
	"reflect"
	"sort"
	"strconv"
	"strings"

	"github.com/go-openapi/analysis"
	"github.com/go-openapi/spec"

	"verif/mc/h"
	"verif/mc/mcrt"
	"verif/mc/mcx"
)

// ---- C17: Mixin merge rules ----

var mixSections = []string{"paths", "definitions", "parameters", "responses", "securityDefinitions"}
var mixLists = []string{"consumes", "produces", "schemes"}
var mixListAlts = [][]any{nil, {"x"}, {"y"}, {"x", "y"}, {"y", "x"}, {"x", "x"}}
var mixTagAlts = [][]string{nil, {"tagOne"}, {"tagTwo"}, {"tagOne", "tagTwo"}, {"tagTwo", "tagOne"}}
var mixSecAlts = [][]any{nil, {J{"k": []any{}}}, {J{"j": []any{"s"}}}, {J{"k": []any{}}, J{"j": []any{"s"}}}, {J{}}}

// mixSame: when set, the values put under a key are identical in every document (two documents bringing the very same
// definition / response / parameter still collide on the key).
var mixSame bool

func mixValue(section, key, origin string) any {
	if mixSame {
		origin = "same"
	}
	switch section {
	case "paths":
		return J{"get": J{"operationId": origin + strings.ReplaceAll(key, "/", "_"), "responses": J{"200": J{"description": origin}}}}
	case "definitions":
		return J{"type": "object", "description": origin}
	case "parameters":
		return J{"name": key, "in": "query", "type": "string", "description": origin}
	case "responses":
		return J{"description": origin}
	default:
		return J{"type": "basic", "description": origin}
	}
}

// mixDoc generates one document (primary or mixin) from INPUT choices; tag is its origin tag.
func mixDoc(x *mcx.Exec, tag string) J {
	doc := J{"swagger": "2.0"}
	ch := func(n int, what string) int { return x.Choose(mcx.INPUT, n, tag+"."+what) }
	// optional parts
	if ch(2, "info") == 1 {
		info := J{"title": "title-" + tag}
		if ch(2, "info.version") == 1 {
			info["version"] = "v-" + tag
		}
		if ch(2, "info.description") == 1 {
			info["description"] = "desc-" + tag
			info["termsOfService"] = "tos-" + tag
		}
		switch ch(3, "info.contact") {
		case 1:
			info["contact"] = J{"name": "cn-" + tag}
		case 2:
			info["contact"] = J{"email": "ce-" + tag, "url": "cu-" + tag, "x-c-" + tag: 1, "x-c-common": tag}
		}
		switch ch(3, "info.license") {
		case 1:
			info["license"] = J{"name": "ln-" + tag}
		case 2:
			info["license"] = J{"url": "lu-" + tag, "x-l-common": tag}
		}
		switch ch(3, "info.extensions") {
		case 1:
			info["x-i-"+tag] = tag
		case 2:
			info["x-i-common"] = tag
		}
		doc["info"] = info
	}
	switch ch(4, "externalDocs") {
	case 1:
		doc["externalDocs"] = J{"description": "ed-" + tag}
	case 2:
		doc["externalDocs"] = J{"url": "eu-" + tag}
	case 3:
		doc["externalDocs"] = J{"description": "ed-" + tag, "url": "eu-" + tag}
	}
	switch ch(4, "extensions") {
	case 1:
		doc["x-top-"+tag] = tag
	case 2:
		doc["x-top-common"] = tag
	case 3:
		// keys with upper-case letters are keys like any other: kept as spelled, colliding only with the same spelling
		doc["X-Top-Common"] = tag
		doc["x-Mixed-"+tag] = tag
	}
	if ch(2, "host") == 1 {
		doc["host"] = "host-" + tag
	}
	if ch(2, "basePath") == 1 {
		doc["basePath"] = "/base-" + tag
	}
	// keyed sections: two keys each
	for _, sec := range mixSections {
		var m J
		for ki := 1; ki <= 2; ki++ {
			key := fmt.Sprintf("%sK%d", sec[:3], ki)
			if sec == "paths" {
				key = "/" + key
			}
			if ch(2, sec+"."+key) == 1 {
				if m == nil {
					m = J{}
				}
				m[key] = mixValue(sec, key, tag)
			}
		}
		if sec == "paths" {
			switch ch(3, "paths.extensions") {
			case 1:
				if m == nil {
					m = J{} // a paths object without any path item
				}
			case 2:
				if m == nil {
					m = J{}
				}
				m["x-paths-"+tag] = tag // vendor extension on the paths object itself
			}
		}
		if m != nil {
			doc[sec] = m
		}
	}
	for _, l := range mixLists {
		if v := mixListAlts[ch(len(mixListAlts), l)]; v != nil {
			doc[l] = v
		}
	}
	if v := mixTagAlts[ch(len(mixTagAlts), "tags")]; v != nil {
		var tags []any
		for _, t := range v {
			td := tag
			if mixSame {
				td = "same"
			}
			tags = append(tags, J{"name": t, "description": td})
		}
		doc["tags"] = tags
	}
	if v := mixSecAlts[ch(len(mixSecAlts), "security")]; v != nil {
		doc["security"] = v
	}
	return doc
}

type mixCase struct {
	Primary string
	Mixins  []string
}

func mixGen(x *mcx.Exec) *mixCase {
	mixSame = x.Choose(mcx.INPUT, 2, "identical values under colliding keys") == 1
	defer func() { mixSame = false }()
	c := &mixCase{Primary: mustJSON(mixDoc(x, "P"))}
	// number of mixins: default 2; alternatives 1, 3, 0
	n := []int{2, 1, 3, 0}[x.Choose(mcx.INPUT, 4, "mixins")]
	for i := 0; i < n; i++ {
		c.Mixins = append(c.Mixins, mustJSON(mixDoc(x, "M"+strconv.Itoa(i+1))))
	}
	return c
}

type mixWarn struct{ Section, Key string }

// refmix: the documented merge rules on generic JSON.
func refmix(primary map[string]any, mixins []map[string]any) (map[string]any, []mixWarn) {
	exp := deepCopyJSON(primary).(map[string]any)
	var warns []mixWarn
	fill := func(dst, src map[string]any, keys ...string) {
		for _, k := range keys {
			if s, _ := dst[k].(string); s == "" {
				if v, ok := src[k]; ok {
					dst[k] = v
				}
			}
		}
	}
	mergeExt := func(dst, src map[string]any, section string) {
		for _, k := range h.SortedKeys(src) {
			if !strings.HasPrefix(strings.ToLower(k), "x-") {
				continue
			}
			if _, dup := dst[k]; dup {
				warns = append(warns, mixWarn{section, k})
				continue
			}
			dst[k] = src[k]
		}
	}
	for _, mx := range mixins {
		m := deepCopyJSON(mx).(map[string]any)
		mergeExt(exp, m, "extensions")
		fill(exp, m, "host", "basePath")
		if mi := asObj(m["info"]); mi != nil {
			if ei := asObj(exp["info"]); ei == nil {
				exp["info"] = mi
			} else {
				mergeExt(ei, mi, "info.extensions")
				fill(ei, mi, "description", "title", "termsOfService", "version")
				for _, part := range []string{"contact", "license"} {
					mp := asObj(mi[part])
					if mp == nil {
						continue
					}
					if ep := asObj(ei[part]); ep == nil {
						ei[part] = mp
					} else {
						mergeExt(ep, mp, "info."+part+".extensions")
						fill(ep, mp, "name", "url", "email")
					}
				}
			}
		}
		if md := asObj(m["externalDocs"]); md != nil {
			if ed := asObj(exp["externalDocs"]); ed == nil {
				exp["externalDocs"] = md
			} else {
				fill(ed, md, "description", "url")
			}
		}
		for _, l := range mixLists {
			cur := asArr(exp[l])
			for _, v := range asArr(m[l]) {
				found := false
				for _, c := range cur {
					if c == v {
						found = true
					}
				}
				if !found {
					cur = append(cur, v)
				}
			}
			if len(cur) > 0 {
				exp[l] = cur
			}
		}
		{
			cur := asArr(exp["tags"])
			for _, v := range asArr(m["tags"]) {
				found := false
				for _, c := range cur {
					if asObj(c)["name"] == asObj(v)["name"] {
						found = true
					}
				}
				if found {
					warns = append(warns, mixWarn{"tags", fmt.Sprint(asObj(v)["name"])})
					continue
				}
				cur = append(cur, v)
			}
			if len(cur) > 0 {
				exp["tags"] = cur
			}
		}
		{
			cur := asArr(exp["security"])
			for _, v := range asArr(m["security"]) {
				found := false
				for _, c := range cur {
					if reflect.DeepEqual(c, v) {
						found = true
					}
				}
				if found {
					warns = append(warns, mixWarn{"security", mustJSON(v)})
					continue
				}
				cur = append(cur, v)
			}
			if len(cur) > 0 {
				exp["security"] = cur
			}
		}
		for _, sec := range mixSections {
			ms := asObj(m[sec])
			if len(ms) == 0 {
				continue
			}
			es := asObj(exp[sec])
			if es == nil {
				es = map[string]any{}
				exp[sec] = es
			}
			for _, k := range h.SortedKeys(ms) {
				if sec == "paths" && strings.HasPrefix(strings.ToLower(k), "x-") {
					continue // vendor extensions of a mixin's paths object are not path items: nothing is claimed about them
				}
				if _, dup := es[k]; dup {
					warns = append(warns, mixWarn{sec, k})
					continue
				}
				es[k] = ms[k]
			}
			if len(es) == 0 {
				delete(exp, sec)
			}
		}
	}
	return exp, warns
}

// dropEmpty removes empty top-level sections (absent == empty for sections).
func dropEmpty(m map[string]any) map[string]any {
	out := map[string]any{}
	for k, v := range m {
		switch t := v.(type) {
		case map[string]any:
			if len(t) == 0 {
				continue
			}
		case []any:
			if len(t) == 0 {
				continue
			}
		case nil:
			continue
		}
		out[k] = v
	}
	return out
}

func loadAll(c *mixCase) (*spec.Swagger, []*spec.Swagger, map[string]any, []map[string]any, bool) {
	p, err := h.LoadSwagger(c.Primary)
	if err != nil {
		return nil, nil, nil, nil, false
	}
	pj, _ := h.ToJSON(h.Marshal(p)).(map[string]any)
	var ms []*spec.Swagger
	var mjs []map[string]any
	for _, m := range c.Mixins {
		sw, err := h.LoadSwagger(m)
		if err != nil {
			return nil, nil, nil, nil, false
		}
		ms = append(ms, sw)
		mj, _ := h.ToJSON(h.Marshal(sw)).(map[string]any)
		mjs = append(mjs, mj)
	}
	return p, ms, pj, mjs, true
}

// c17Check: one Mixin call checked against the reference model, then a second call on the same live primary
// (fresh copies of the mixins, in reverse order) checked against the reference model applied to the result of the first:
// the rules hold for every call, not only for the first one made in a process or on an object.
func c17Check(c *mixCase, pol mcrt.Policy) (sig, what string, nontrivial bool, outcome string) {
	p, ms, pj, mjs, ok := loadAll(c)
	if !ok {
		return "", "", false, ""
	}
	sig, what, nontrivial, outcome = c17Step(c, p, ms, pj, mjs, pol)
	if sig != "" || outcome == "crash" || len(c.Mixins) == 0 {
		return
	}
	rev := &mixCase{Primary: c.Primary}
	for i := len(c.Mixins) - 1; i >= 0; i-- {
		rev.Mixins = append(rev.Mixins, c.Mixins[i])
	}
	_, ms2, _, mjs2, ok := loadAll(rev)
	if !ok {
		return
	}
	pj2, _ := h.ToJSON(h.Marshal(p)).(map[string]any)
	if sig2, what2, _, out2 := c17Step(rev, p, ms2, pj2, mjs2, pol); sig2 != "" {
		return "second Mixin on the same primary: " + sig2, what2, nontrivial, outcome + out2
	}
	return
}

func c17Step(c *mixCase, p *spec.Swagger, ms []*spec.Swagger, pj map[string]any, mjs []map[string]any, pol mcrt.Policy) (sig, what string, nontrivial bool, outcome string) {
	exp, expWarns := refmix(pj, mjs)
	mcrt.Reset(pol, nil, h.DefaultHorizon)
	var o h.Outcome
	var warns []string
	h.Guard(&o, func() { warns = analysis.Mixin(p, ms...) })
	if o.Crashed() {
		cls := ""
		if asObj(pj["externalDocs"]) != nil {
			for _, m := range mjs {
				if asObj(m["externalDocs"]) == nil {
					cls = " (primary has externalDocs, a mixin has none)"
				}
			}
		}
		return "Mixin " + o.Class() + " at " + o.PanicFrame + cls, o.Panic, true, "crash"
	}
	got, _ := h.ToJSON(h.Marshal(p)).(map[string]any)
	outcome = mustJSON(got) + fmt.Sprint(len(warns))
	nontrivial = len(c.Mixins) > 0 && !reflect.DeepEqual(dropEmpty(got), dropEmpty(pj))
	if g, e := dropEmpty(got), dropEmpty(exp); !reflect.DeepEqual(g, e) {
		// name the first differing top-level key
		var diff []string
		for _, k := range h.SortedKeys(e) {
			if !reflect.DeepEqual(g[k], e[k]) {
				diff = append(diff, k)
			}
		}
		for _, k := range h.SortedKeys(g) {
			if _, ok := e[k]; !ok {
				diff = append(diff, k)
			}
		}
		k0 := ""
		if len(diff) > 0 {
			k0 = diff[0]
			if strings.HasPrefix(strings.ToLower(k0), "x-") {
				k0 = "extensions"
			}
		}
		return "merged document differs from the merge rules in: " + k0, fmt.Sprintf("differing keys %v: got %s want %s", diff, mustJSON(g), mustJSON(e)), nontrivial, outcome
	}
	// warnings: exactly one per collision; each expected key must be named by a distinct warning
	if len(warns) != len(expWarns) {
		secs := map[string]int{}
		for _, w := range expWarns {
			secs[w.Section]++
		}
		var ss []string
		for s := range secs {
			ss = append(ss, s)
		}
		sort.Strings(ss)
		return fmt.Sprintf("wrong number of collision reports (expected collisions in %v)", ss), fmt.Sprintf("got %d warnings %q, expected %d: %v", len(warns), warns, len(expWarns), expWarns), nontrivial, outcome
	}
	// every expected collision must be named by a distinct warning: a perfect matching between expectations and
	// warnings (the wording of a warning is free, it only has to name the key; for a security requirement, its scheme names)
	compat := func(e mixWarn, w string) bool {
		if e.Section == "security" {
			for k := range asObj(h.ToJSON([]byte(e.Key))) {
				if !strings.Contains(w, k) {
					return false
				}
			}
			return true
		}
		return w == e.Key || strings.Contains(w, e.Key)
	}
	matchOf := make([]int, len(warns)) // warning -> expectation
	for i := range matchOf {
		matchOf[i] = -1
	}
	var try func(ei int, seen []bool) bool
	try = func(ei int, seen []bool) bool {
		for wi, w := range warns {
			if seen[wi] || !compat(expWarns[ei], w) {
				continue
			}
			seen[wi] = true
			if matchOf[wi] < 0 || try(matchOf[wi], seen) {
				matchOf[wi] = ei
				return true
			}
		}
		return false
	}
	for ei, e := range expWarns {
		if !try(ei, make([]bool, len(warns))) {
			return "collision not reported for section " + e.Section, fmt.Sprintf("no distinct warning names %v; warnings: %q", e, warns), nontrivial, outcome
		}
	}
	return "", "", nontrivial, outcome
}

func mixReplay(check func(c *mixCase, pol mcrt.Policy) (string, string, bool, string)) func(v *Violation) string {
	return func(v *Violation) string {
		if v.Generator == "c17seq" {
			return c17SeqReplay(v)
		}
		b, _ := json.Marshal(v.Input)
		var c mixCase
		_ = json.Unmarshal(b, &c)
		pol := mcrt.Asc
		if p, ok := v.Env["policy"].(float64); ok {
			pol = mcrt.Policy(int(p))
		}
		sig, what, _, _ := check(&c, pol)
		if sig == "" {
			return ""
		}
		return sig + ": " + what
	}
}

func runMix(c *Ctx, genName string, k *int64, mc *mixCase, desc any, check func(c *mixCase, pol mcrt.Policy) (string, string, bool, string)) {
	*k++
	if !c.Mine(*k - 1) {
		return
	}
	nt := false
	for _, pol := range []mcrt.Policy{mcrt.Asc, mcrt.Desc} {
		c.Begin(&Violation{Signature: "fatal crash of the process", Generator: genName, Input: mc, Env: J{"policy": int(pol)}})
		sig, what, nontrivial, outcome := check(mc, pol)
		if outcome == "" && sig == "" {
			c.Count("not_loadable", 1)
			continue
		}
		c.Execs++
		c.Validated++
		c.Outcome(hashStr(outcome))
		nt = nt || nontrivial
		if sig != "" {
			c.Violate(&Violation{Signature: sig, What: what, Generator: genName, Input: mc, Env: J{"policy": int(pol)}})
		}
	}
	if nt {
		c.NonTrivial++
		if len(mc.Mixins) > 1 {
			c.Sample(J{"primary": json.RawMessage(mc.Primary), "mixins": rawList(mc.Mixins)})
		}
	}
}

func rawList(l []string) []json.RawMessage {
	var out []json.RawMessage
	for _, s := range l {
		out = append(out, json.RawMessage(s))
	}
	return out
}

func init() {
	register(&Check{ID: "C17", Run: func(c *Ctx) {
		t := 3
		if c.Thorough() {
			t = 4
		}
		c.Bounds["input_deviations"] = t
		c.Bounds["mixins"] = "0..3"
		c.Bounds["full_tables"] = "per keyed section: presence of 2 keys in primary and 3 mixins (2^8 x 5 sections); optional parts: 2^7 x 2^7 presence patterns on primary and one mixin"
		var k int64
		e := mcx.New()
		e.Bound[mcx.INPUT] = t
		var mc *mixCase
		e.Run(func(x *mcx.Exec) { mc = mixGen(x) }, func(x *mcx.Exec) bool {
			if k%int64(c.NShards) == int64(c.Shard) {
				c.ChoicePoints += int64(len(x.Points))
			}
			runMix(c, "c17", &k, mc, nil, c17Check)
			return k%256 != 0 || !c.Expired()
		})
		// full presence tables per keyed section over primary + 3 mixins
		for _, sec := range mixSections {
			for mask := 0; mask < 1<<9; mask++ {
				mixSame = mask&(1<<8) != 0 // second half of the table: identical values in every document
				docs := make([]J, 4)
				for d := 0; d < 4; d++ {
					tag := "P"
					if d > 0 {
						tag = "M" + strconv.Itoa(d)
					}
					docs[d] = J{"swagger": "2.0"}
					m := J{}
					for ki := 0; ki < 2; ki++ {
						if mask&(1<<(d*2+ki)) != 0 {
							key := fmt.Sprintf("%sK%d", sec[:3], ki+1)
							if sec == "paths" {
								key = "/" + key
							}
							m[key] = mixValue(sec, key, tag)
						}
					}
					if len(m) > 0 {
						docs[d][sec] = m
					}
				}
				runMix(c, "c17", &k, &mixCase{Primary: mustJSON(docs[0]), Mixins: []string{mustJSON(docs[1]), mustJSON(docs[2]), mustJSON(docs[3])}}, nil, c17Check)
			}
		}
		mixSame = false
		// optional parts: every presence pattern on the primary and on one mixin
		parts := func(mask int, tag string) J {
			d := J{"swagger": "2.0"}
			if mask&1 != 0 {
				info := J{"title": "t-" + tag}
				if mask&2 != 0 {
					info["contact"] = J{"name": "cn-" + tag, "x-c": tag}
				}
				if mask&4 != 0 {
					info["license"] = J{"name": "ln-" + tag, "x-l": tag}
				}
				if mask&8 != 0 {
					info["x-i"] = tag
				}
				d["info"] = info
			}
			if mask&16 != 0 {
				d["externalDocs"] = J{"description": "ed-" + tag}
			}
			if mask&32 != 0 {
				d["paths"] = J{"/p" + tag: mixValue("paths", "/p"+tag, tag)}
			}
			if mask&64 != 0 {
				d["x-top"] = tag
			}
			return d
		}
		for pm := 0; pm < 1<<7; pm++ {
			for mm := 0; mm < 1<<7; mm++ {
				runMix(c, "c17", &k, &mixCase{Primary: mustJSON(parts(pm, "P")), Mixins: []string{mustJSON(parts(mm, "M1"))}}, nil, c17Check)
			}
		}
		// scalar fields: every presence pattern of the fill-if-empty fields of one object, independently on the primary and on
		// two mixins (each field has its own guard in the code; a guard testing a neighbouring field shows only when the
		// fields are present independently of each other)
		scalarTables := []struct {
			at     []string // where the object sits ("" = the document itself)
			fields []string
		}{
			{[]string{"info", "contact"}, []string{"name", "url", "email"}},
			{[]string{"info", "license"}, []string{"name", "url"}},
			{[]string{"info"}, []string{"title", "description", "termsOfService", "version"}},
			{nil, []string{"host", "basePath"}},
			{[]string{"externalDocs"}, []string{"description", "url"}},
		}
		c.Bounds["scalar_tables"] = "contact{name,url,email}, license{name,url}, info{title,description,termsOfService,version}, document{host,basePath}, externalDocs{description,url}: every presence subset on primary x mixin 1 x mixin 2"
		for _, st := range scalarTables {
			n := 1 << len(st.fields)
			mk := func(mask int, tag string) string {
				d := J{"swagger": "2.0"}
				o := d
				for _, seg := range st.at {
					next := J{}
					o[seg] = next
					o = next
				}
				for fi, f := range st.fields {
					if mask&(1<<fi) != 0 {
						o[f] = f + "-" + tag
					}
				}
				return mustJSON(d)
			}
			for pm := 0; pm < n; pm++ {
				for m1 := 0; m1 < n; m1++ {
					for m2 := 0; m2 < n; m2++ {
						runMix(c, "c17", &k, &mixCase{Primary: mk(pm, "P"), Mixins: []string{mk(m1, "M1"), mk(m2, "M2")}}, nil, c17Check)
					}
				}
			}
		}
		c17Sequences(c)
	}, Replay: mixReplay(c17Check)})
}

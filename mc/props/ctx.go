// Package props holds, per property, the bounded input space, the exploration and the oracle.
package props

import (
	"crypto/sha1"
	"encoding/hex"
	"encoding/json"
	"fmt"
	"os"
	"path/filepath"
	"sort"
	"time"

	"verif/mc/mcrt"
)

// Violation is one counterexample, replayable from its file.
type Violation struct {
	Property string `json:"property"`
	// Signature names the cause narrowly (symptom + triggering feature class); used to match known findings.
	Signature string `json:"signature"`
	What      string `json:"what"`
	// Replay data: generator name + everything needed to rebuild the execution.
	Generator string         `json:"generator"`
	Input     any            `json:"input"`
	Env       map[string]any `json:"env,omitempty"`
	Observed  any            `json:"observed,omitempty"`
	Expected  any            `json:"expected,omitempty"`
	// History: the executions run just before this one in the same process (replayed first, results ignored):
	// a violation that depends on state left behind by earlier calls is only reproducible with them.
	History []json.RawMessage `json:"history,omitempty"`
}

type vioGroup struct {
	Signature string   `json:"signature"`
	Count     int64    `json:"count"`
	What      string   `json:"what"`
	Replays   []string `json:"replays"`
}

// Ctx is the per-worker context of a check.
type Ctx struct {
	Prop     string
	Tier     string
	Shard    int
	NShards  int
	Seed     int64
	OutDir   string // where replay files are written
	Deadline time.Time
	Args     map[string]string

	Inputs       int64 // inputs of this shard
	InputsTotal  int64 // inputs enumerated (all shards)
	Execs        int64
	ChoicePoints int64
	NonTrivial   int64
	Validated    int64 // executions compared against a reference model
	outcomes     map[uint64]struct{}
	groups       map[string]*vioGroup
	Samples      []any
	Caps         []string
	Counters     map[string]int64
	Bounds       map[string]any
	Notes        []string
	Exhaustive   bool
	MaxReplays   int

	// Journal: before an execution that may kill the process (fatal stack overflow, out of memory), its
	// replayable description is written here so that the driver can attribute the death to it.
	JournalPath string
	journal     *os.File
	history     [][]byte // descriptions of the previous executions (most recent last)
	current     []byte
	curInput    int64
	Skip        map[int64]bool
}

// NewCtx builds a context.
func NewCtx(prop, tier string, shard, n int, outDir string) *Ctx {
	return &Ctx{Prop: prop, Tier: tier, Shard: shard, NShards: n, OutDir: outDir,
		outcomes: map[uint64]struct{}{}, groups: map[string]*vioGroup{}, Counters: map[string]int64{}, Bounds: map[string]any{},
		Exhaustive: true, MaxReplays: 2, Args: map[string]string{}}
}

// Mine tells whether input number k (in enumeration order) belongs to this shard; it counts it.
func (c *Ctx) Mine(k int64) bool {
	c.InputsTotal++
	if int(k%int64(c.NShards)) != c.Shard {
		return false
	}
	if c.Skip[k] {
		c.Cap(fmt.Sprintf("input #%d skipped: it killed the worker process in a previous attempt (reported separately)", k))
		return false
	}
	c.Inputs++
	c.curInput = k
	return true
}

// Begin journals the execution about to start.
func (c *Ctx) Begin(v *Violation) {
	v.Property = c.Prop
	if vb, err := json.Marshal(v); err == nil {
		if c.current != nil {
			c.history = append(c.history, c.current)
			if len(c.history) > 2 {
				c.history = c.history[len(c.history)-2:]
			}
		}
		c.current = vb
	}
	if c.JournalPath == "" {
		return
	}
	if c.journal == nil {
		f, err := os.OpenFile(c.JournalPath, os.O_CREATE|os.O_RDWR|os.O_TRUNC, 0o644)
		if err != nil {
			c.JournalPath = ""
			return
		}
		c.journal = f
	}
	v.Property = c.Prop
	b, err := json.Marshal(J{"k": c.curInput, "violation": v})
	if err != nil {
		return
	}
	_ = c.journal.Truncate(0)
	_, _ = c.journal.WriteAt(b, 0)
}

// Thorough reports the tier.
func (c *Ctx) Thorough() bool { return c.Tier == "thorough" }

// Outcome records the hash of a canonical end state.
func (c *Ctx) Outcome(h uint64) { c.outcomes[h] = struct{}{} }

// Count bumps a named counter.
func (c *Ctx) Count(name string, n int64) { c.Counters[name] += n }

// Sample keeps up to a few materialised executions.
func (c *Ctx) Sample(s any) {
	if len(c.Samples) < 3 {
		c.Samples = append(c.Samples, s)
	}
}

// Cap records that a cap was hit; the run is no longer exhaustive.
func (c *Ctx) Cap(what string) {
	c.Exhaustive = false
	for _, w := range c.Caps {
		if w == what {
			return
		}
	}
	c.Caps = append(c.Caps, what)
}

// Expired tells whether the internal deadline passed (the run then ends non-exhaustive, exit 0).
func (c *Ctx) Expired() bool {
	if c.Deadline.IsZero() {
		return false
	}
	if time.Now().After(c.Deadline) {
		c.Cap("internal deadline reached: exploration stopped early")
		return true
	}
	return false
}

// Violate records a violation, writing a replay file for the first few of each signature.
func (c *Ctx) Violate(v *Violation) {
	v.Property = c.Prop
	g := c.groups[v.Signature]
	if g == nil {
		g = &vioGroup{Signature: v.Signature, What: v.What}
		c.groups[v.Signature] = g
	}
	g.Count++
	if len(g.Replays) >= c.MaxReplays {
		return
	}
	for _, hb := range c.history {
		v.History = append(v.History, json.RawMessage(hb))
	}
	b, _ := json.MarshalIndent(v, "", " ")
	sum := sha1.Sum(b)
	name := filepath.Join(c.OutDir, c.Prop, hex.EncodeToString(sum[:6])+".json")
	_ = os.MkdirAll(filepath.Dir(name), 0o755)
	if err := os.WriteFile(name, b, 0o644); err != nil {
		fmt.Fprintln(os.Stderr, "cannot write replay:", err)
	}
	g.Replays = append(g.Replays, name)
}

// Result is what a worker hands to the driver.
type Result struct {
	Prop         string           `json:"prop"`
	Shard        int              `json:"shard"`
	Inputs       int64            `json:"inputs"`
	InputsTotal  int64            `json:"inputs_total"`
	Execs        int64            `json:"execs"`
	ChoicePoints int64            `json:"choice_points"`
	NonTrivial   int64            `json:"nontrivial"`
	Validated    int64            `json:"validated"`
	Outcomes     []string         `json:"outcomes"`
	Violations   []*vioGroup      `json:"violations"`
	Samples      []any            `json:"samples"`
	Caps         []string         `json:"caps"`
	Counters     map[string]int64 `json:"counters"`
	Bounds       map[string]any   `json:"bounds"`
	Notes        []string         `json:"notes"`
	Exhaustive   bool             `json:"exhaustive"`
	WallS        float64          `json:"wall_s"`
	MaxWork      int      `json:"max_work"`
}

// Result assembles the worker result.
func (c *Ctx) Result(wall float64) *Result {
	r := &Result{Prop: c.Prop, Shard: c.Shard, Inputs: c.Inputs, InputsTotal: c.InputsTotal, Execs: c.Execs, ChoicePoints: c.ChoicePoints,
		NonTrivial: c.NonTrivial, Validated: c.Validated, Samples: c.Samples, Caps: c.Caps, Counters: c.Counters, Bounds: c.Bounds,
		Notes: c.Notes, Exhaustive: c.Exhaustive, WallS: wall}
	mcrt.Reset(mcrt.Asc, nil, 0) // folds the last execution into MaxWork
	r.MaxWork = mcrt.MaxWork
	for h := range c.outcomes {
		r.Outcomes = append(r.Outcomes, fmt.Sprintf("%016x", h))
	}
	sort.Strings(r.Outcomes)
	for _, g := range c.groups {
		r.Violations = append(r.Violations, g)
	}
	sort.Slice(r.Violations, func(i, j int) bool { return r.Violations[i].Signature < r.Violations[j].Signature })
	return r
}

// Check is the entry point of a property.
type Check struct {
	ID  string
	Run func(c *Ctx)
	// Replay re-executes a violation file without the explorer; it returns a description of the
	// violation observed, or "" if the execution satisfies the property.
	Replay func(v *Violation) string
}

// Registry of checks by property id.
var Registry = map[string]*Check{}

func register(ch *Check) { Registry[ch.ID] = ch }

package props

import (
	"encoding/json"
	"fmt"
	"reflect"
	"sort"
	"strconv"
	"strings"

	"github.com/go-openapi/analysis"

	"verif/mc/gen"
	"verif/mc/h"
	"verif/mc/mcrt"
	"verif/mc/oracle"
)

// ---- shared: positions of the schema model ----

type position struct {
	Root  string
	Chain []gen.Step
	Label string
}

// stepAlphabet instantiates K with concrete names and indexes; named steps take name nm.
func stepAlphabet(nm string) []gen.Step {
	return []gen.Step{
		{Kw: "properties", Name: "a"}, {Kw: "properties", Name: nm}, {Kw: "patternProperties", Name: "^x" + nm}, {Kw: "patternProperties", Name: "^y"},
		{Kw: "definitions", Name: nm}, {Kw: "definitions", Name: "dd"},
		{Kw: "items"}, {Kw: "itemsN", Idx: 0}, {Kw: "itemsN", Idx: 1}, {Kw: "additionalProperties"}, {Kw: "additionalItems"},
		{Kw: "allOf", Idx: 0}, {Kw: "allOf", Idx: 1}, {Kw: "anyOf", Idx: 0}, {Kw: "oneOf", Idx: 1}, {Kw: "not"},
	}
}

// chains enumerates every chain of exactly length l over the step alphabet; names rotate over Sigma.
func chains(l int, ctr *int) [][]gen.Step {
	if l == 0 {
		return [][]gen.Step{nil}
	}
	var out [][]gen.Step
	for _, pre := range chains(l-1, ctr) {
		nm := gen.SigmaCore[*ctr%len(gen.SigmaCore)]
		*ctr++
		for _, s := range stepAlphabet(nm) {
			c := append(append([]gen.Step(nil), pre...), s)
			out = append(out, c)
		}
	}
	return out
}

func schemaPositions(minLen, maxLen int) []position {
	var out []position
	ctr := 0
	for _, r := range gen.RootKinds {
		for l := minLen; l <= maxLen; l++ {
			for _, c := range chains(l, &ctr) {
				out = append(out, position{Root: r, Chain: c, Label: r + "/" + strings.Join(gen.ChainTokens(c), "/")})
			}
		}
	}
	return out
}

// plantAt returns the plants putting payload at a schema position (instance inst of its root).
func plantAt(p position, inst int, payload gen.J) []gen.Plant {
	return plantAtNamed(p, inst, "d"+strconv.Itoa(inst), gen.BasePath, payload)
}

func plantAtNamed(p position, inst int, nm, pt string, payload gen.J) []gen.Plant {
	path, ctx := gen.SchemaRoot(p.Root, inst, nm, pt)
	full := append(append([]string(nil), path...), gen.ChainTokens(p.Chain)...)
	return append(ctx, gen.Plant{Path: full, Payload: payload})
}

// option is one element of a catalogue: it yields its plants for a given instance number.
type option struct {
	Label  string
	Plants func(inst int, payloadIdx int) []gen.Plant
}

// buildFrom renders the skeleton plus the chosen options; on conflict the later option is moved to
// its alternate instance. ok=false if still conflicting.
func buildFrom(opts []option, idx []int) (gen.J, bool) {
	for mask := 0; mask < 1<<len(idx); mask++ {
		plants := gen.Skeleton()
		for k, i := range idx {
			inst := 0
			if mask&(1<<k) != 0 {
				inst = 1
			}
			plants = append(plants, opts[i].Plants(inst, i)...)
		}
		if doc, ok := gen.Build(plants); ok {
			return doc, true
		}
	}
	return nil, false
}

// subsets calls fn for every subset of {0..n-1} of size 1..t (and the empty set first), in a fixed order.
func subsets(n, t int, fn func(idx []int) bool) {
	if !fn(nil) {
		return
	}
	var rec func(start int, cur []int) bool
	rec = func(start int, cur []int) bool {
		for i := start; i < n; i++ {
			next := append(cur, i)
			if !fn(next) {
				return false
			}
			if len(next) < t {
				if !rec(i+1, next) {
					return false
				}
			}
		}
		return true
	}
	rec(0, make([]int, 0, t))
}

var refForms = []string{"#/definitions/target", "other.json#/definitions/x", "#/definitions/d0/properties/a", "#/definitions/pet%20owner", "sub/a.json"}

// ---- C11 catalogue ----

func c11Catalogue(maxChain int) []option {
	var opts []option
	for _, p := range schemaPositions(0, maxChain) {
		p := p
		opts = append(opts, option{Label: "schemaref@" + p.Label, Plants: func(inst, pi int) []gen.Plant {
			return plantAt(p, inst, gen.J{"$ref": refForms[pi%len(refForms)]})
		}})
	}
	// several spellings of what a normalisation would call the same target: each spelling is a $ref of its own
	opts = append(opts, option{Label: "schemarefs@spellings", Plants: func(inst, pi int) []gen.Plant {
		n := "spelled" + strconv.Itoa(inst)
		props := gen.J{}
		for i, r := range []string{"sub/o.json#/definitions/x", "./sub/o.json#/definitions/x", "SUB/o.json#/definitions/x", "sub/o.json#/definitions/X",
			"sub/o.json#/definitions/x", "#/definitions/pet%20owner", "#/definitions/pet~0owner"} {
			props["p"+strconv.Itoa(i)] = gen.J{"$ref": r}
		}
		return []gen.Plant{gen.P(gen.J{"type": "object", "properties": props}, "definitions", n)}
	}})
	pt := gen.BasePath
	ref := func(pi int, base string) gen.J { return gen.J{"$ref": base + strconv.Itoa(pi%2)} }
	// parameter $refs (path level and operation level)
	opts = append(opts, option{Label: "paramref@path", Plants: func(inst, pi int) []gen.Plant {
		return []gen.Plant{gen.P(ref(pi, "#/parameters/sp"), "paths", pt, "parameters", strconv.Itoa(2+inst))}
	}})
	opts = append(opts, option{Label: "paramref@op", Plants: func(inst, pi int) []gen.Plant {
		return []gen.Plant{gen.P(ref(pi, "#/parameters/sp"), "paths", pt, "post", "parameters", strconv.Itoa(2+inst)),
			gen.P(gen.J{"description": "ok"}, "paths", pt, "post", "responses", "200")}
	}})
	for _, m := range []string{"head", "options", "patch", "delete"} {
		m := m
		opts = append(opts, option{Label: "paramref@" + m, Plants: func(inst, pi int) []gen.Plant {
			return []gen.Plant{gen.P(ref(pi, "other.json#/parameters/sp"), "paths", pt, m, "parameters", strconv.Itoa(inst)),
				gen.P(gen.J{"description": "ok"}, "paths", pt, m, "responses", "200")}
		}})
		opts = append(opts, option{Label: "responseref@" + m, Plants: func(inst, pi int) []gen.Plant {
			return []gen.Plant{gen.P(ref(pi, "#/responses/sr"), "paths", pt, m, "responses", []string{"default", "404"}[inst])}
		}})
	}
	opts = append(opts, option{Label: "responseref@default", Plants: func(inst, pi int) []gen.Plant {
		return []gen.Plant{gen.P(ref(pi, "#/responses/sr"), "paths", pt, []string{"get", "put"}[inst], "responses", "default")}
	}})
	opts = append(opts, option{Label: "responseref@code", Plants: func(inst, pi int) []gen.Plant {
		return []gen.Plant{gen.P(ref(pi, "#/responses/sr"), "paths", pt, "get", "responses", strconv.Itoa(404+inst))}
	}})
	opts = append(opts, option{Label: "pathitemref", Plants: func(inst, pi int) []gen.Plant {
		return []gen.Plant{gen.P(ref(pi, "pi.json#/x-items/pi"), "paths", []string{"/q", "/r/{x}"}[inst])}
	}})
	// a path item that has a $ref next to its own operations and parameters
	opts = append(opts, option{Label: "pathitemref@basePath", Plants: func(inst, pi int) []gen.Plant {
		return []gen.Plant{gen.P(ref(pi, "pi.json#/x-items/base"), "paths", pt)}
	}})
	// items $refs in simple schemas, nested 1..3
	for depth := 1; depth <= 3; depth++ {
		items := make([]string, depth)
		for i := range items {
			items[i] = "items"
		}
		d := depth
		mk := func(label string, holder func(inst int) ([]string, gen.J)) {
			opts = append(opts, option{Label: fmt.Sprintf("itemsref@%s/%d", label, d), Plants: func(inst, pi int) []gen.Plant {
				hp, hpay := holder(inst)
				pl := []gen.Plant{gen.P(hpay, hp...)}
				for i := 1; i < d; i++ {
					pl = append(pl, gen.P(gen.J{"type": "array"}, append(append([]string(nil), hp...), items[:i]...)...))
				}
				pl = append(pl, gen.P(ref(pi, "#/definitions/it"), append(append([]string(nil), hp...), items...)...))
				return pl
			}})
		}
		// parameter locations rotate with the holder and the nesting depth (query, path, header, formData all occur on each holder)
		locs := []string{"query", "path", "header", "formData"}
		for k, in := range locs {
			if k != d%4 && d != 1 {
				continue // depth 1: every location; deeper: one location per depth
			}
			in := in
			mk("sharedParam."+in, func(inst int) ([]string, gen.J) {
				return []string{"parameters", "q" + strconv.Itoa(inst)}, gen.J{"name": "q", "in": in, "type": "array"}
			})
			mk("pathParam."+in, func(inst int) ([]string, gen.J) {
				return []string{"paths", pt, "parameters", strconv.Itoa(4 + inst)}, gen.J{"name": "q" + strconv.Itoa(inst), "in": in, "type": "array"}
			})
			mk("opParam."+in, func(inst int) ([]string, gen.J) {
				return []string{"paths", pt, "get", "parameters", strconv.Itoa(inst)}, gen.J{"name": "q" + strconv.Itoa(inst), "in": in, "type": "array"}
			})
		}
		if d == 1 {
			for mi, m := range oracle.Methods7 {
				if m == "get" {
					continue
				}
				m, in := m, locs[mi%4]
				mk("opParam."+m+"."+in, func(inst int) ([]string, gen.J) {
					return []string{"paths", pt, m, "parameters", strconv.Itoa(inst)}, gen.J{"name": "q" + strconv.Itoa(inst), "in": in, "type": "array"}
				})
				mk("codeHeader."+m, func(inst int) ([]string, gen.J) {
					return []string{"paths", pt, m, "responses", "200", "headers", "X-H" + strconv.Itoa(inst)}, gen.J{"type": "array"}
				})
				mk("defaultHeader."+m, func(inst int) ([]string, gen.J) {
					return []string{"paths", pt, m, "responses", "default", "headers", "X-H" + strconv.Itoa(inst)}, gen.J{"type": "array"}
				})
			}
		}
		mk("defaultHeader", func(inst int) ([]string, gen.J) {
			return []string{"paths", pt, "get", "responses", "default", "headers", "X-H" + strconv.Itoa(inst)}, gen.J{"type": "array"}
		})
		mk("codeHeader", func(inst int) ([]string, gen.J) {
			return []string{"paths", pt, "get", "responses", "200", "headers", "X-H" + strconv.Itoa(inst)}, gen.J{"type": "array"}
		})
		mk("sharedHeader", func(inst int) ([]string, gen.J) {
			return []string{"responses", "sr" + strconv.Itoa(inst), "headers", "X-H"}, gen.J{"type": "array"}
		})
	}
	return opts
}

func sortedCopy(s []string) []string {
	c := append([]string(nil), s...)
	sort.Strings(c)
	return c
}

func sameMultiset(a, b []string) bool {
	return reflect.DeepEqual(sortedCopy(a), sortedCopy(b)) || (len(a) == 0 && len(b) == 0)
}

type docObs struct {
	Before string
	Out    h.Outcome
}

// analyzeDoc loads a document and builds the analyzer under the given policy.
func analyzeDoc(docJSON string, pol mcrt.Policy) (*analysis.Spec, *docObs, map[string]any) {
	obs := &docObs{}
	sw, err := h.LoadSwagger(docJSON)
	if err != nil {
		return nil, nil, nil
	}
	obs.Before = string(h.Marshal(sw))
	mcrt.Reset(pol, nil, h.DefaultHorizon)
	var an *analysis.Spec
	h.Guard(&obs.Out, func() { an = analysis.New(sw) })
	doc, _ := h.ToJSON([]byte(obs.Before)).(map[string]any)
	return an, obs, doc
}

func c11Check(docJSON string, pol mcrt.Policy) (sig, what string, nontrivial bool, outcome string) {
	an, obs, doc := analyzeDoc(docJSON, pol)
	if obs == nil {
		return "", "", false, ""
	}
	if obs.Out.Crashed() {
		return "crash " + obs.Out.Class() + " at " + obs.Out.PanicFrame, obs.Out.Panic, false, "crash"
	}
	w := oracle.WalkDoc(doc)
	byKind := map[string][]string{}
	var all []string
	for _, r := range w.Refs {
		byKind[r.Kind] = append(byKind[r.Kind], r.Ref)
		all = append(all, r.Ref)
	}
	var got struct {
		All, Def, Par, Res, Pi, It, Uniq []string
	}
	var o h.Outcome
	h.Guard(&o, func() {
		got.All = an.AllReferences()
		got.Def = an.AllDefinitionReferences()
		got.Par = an.AllParameterReferences()
		got.Res = an.AllResponseReferences()
		got.Pi = an.AllPathItemReferences()
		got.It = an.AllItemsReferences()
		for _, r := range an.AllRefs() {
			got.Uniq = append(got.Uniq, r.String())
		}
	})
	if o.Crashed() {
		return "crash in getters at " + o.PanicFrame, o.Panic, false, "crash"
	}
	// the canonical end state is the index as a whole: which holder (by pointer) refers to what
	var st []string
	for _, r := range w.Refs {
		st = append(st, r.Kind+"@"+strings.Join(r.Tokens, "/")+"="+r.Ref)
	}
	outcome = strings.Join(sortedCopy(st), "|") + "#" + strings.Join(sortedCopy(got.All), "|")
	nontrivial = len(all) > 0
	cmp := func(view string, g, e []string) (string, string) {
		if !sameMultiset(g, e) {
			return "wrong " + view, fmt.Sprintf("%s = %v, the document holds %v", view, sortedCopy(g), sortedCopy(e))
		}
		return "", ""
	}
	for _, c := range []struct {
		v    string
		g, e []string
	}{{"AllReferences", got.All, all}, {"AllDefinitionReferences", got.Def, byKind["schema"]}, {"AllParameterReferences", got.Par, byKind["parameter"]},
		{"AllResponseReferences", got.Res, byKind["response"]}, {"AllPathItemReferences", got.Pi, byKind["pathitem"]}, {"AllItemsReferences", got.It, byKind["items"]}} {
		if s, wh := cmp(c.v, c.g, c.e); s != "" {
			return s, wh, nontrivial, outcome
		}
	}
	uniq := map[string]bool{}
	for _, r := range all {
		uniq[r] = true
	}
	var eu []string
	for r := range uniq {
		eu = append(eu, r)
	}
	if s, wh := cmp("AllRefs", got.Uniq, eu); s != "" {
		return s, wh, nontrivial, outcome
	}
	return "", "", nontrivial, outcome
}

// runDocCatalogue is the common driver: every subset of <= t options of the catalogue, both policies.
func runDocCatalogue(c *Ctx, genName string, opts []option, t int, check func(docJSON string, pol mcrt.Policy) (string, string, bool, string)) {
	var k int64
	subsets(len(opts), t, func(idx []int) bool {
		k++
		if !c.Mine(k - 1) {
			return true
		}
		doc, ok := buildFrom(opts, idx)
		if !ok {
			if len(idx) == 1 {
				panic("generator error: option " + opts[idx[0]].Label + " cannot be built on its own")
			}
			c.Count("conflicting_combinations_skipped", 1)
			return true
		}
		c.ChoicePoints += int64(len(idx)) + 1 // which plants, which map order
		dj := gen.JSON(doc)
		if !normalForm(dj) {
			// the spec model does not round-trip this combination (e.g. headers next to a response $ref are
			// dropped by its serializer): outside the generated space, which is asserted to be in normal form
			c.Count("not_normal_form_skipped", 1)
			return true
		}
		labels := make([]string, len(idx))
		for i, j := range idx {
			labels[i] = opts[j].Label
		}
		nt := false
		for _, pol := range []mcrt.Policy{mcrt.Asc, mcrt.Desc} {
			c.Begin(&Violation{Signature: "fatal crash of the process", Generator: genName, Input: J{"doc": json.RawMessage(dj), "plants": labels}, Env: J{"policy": int(pol)}})
			sig, what, nontrivial, outcome := check(dj, pol)
			if outcome == "" && sig == "" {
				c.Count("not_loadable", 1)
				continue
			}
			c.Execs++
			c.Validated++
			c.Outcome(hashStr(outcome))
			nt = nt || nontrivial
			if sig != "" {
				c.Violate(&Violation{Signature: sig, What: what, Generator: genName, Input: J{"doc": json.RawMessage(dj), "plants": labels}, Env: J{"policy": int(pol)}})
			}
		}
		if nt {
			c.NonTrivial++
			if len(idx) == t {
				c.Sample(J{"plants": labels, "doc": json.RawMessage(dj)})
			}
		}
		return k%64 != 0 || !c.Expired()
	})
}

// normalForm tells whether marshal(load(d)) == d (as JSON values).
func normalForm(dj string) bool {
	sw, err := h.LoadSwagger(dj)
	if err != nil {
		return true // counted as not loadable by the caller
	}
	return reflect.DeepEqual(h.ToJSON(h.Marshal(sw)), h.ToJSON([]byte(dj)))
}

func replayDoc(check func(docJSON string, pol mcrt.Policy) (string, string, bool, string)) func(v *Violation) string {
	return func(v *Violation) string {
		in := v.Input.(map[string]any)
		dj := mustJSON(in["doc"])
		pol := mcrt.Asc
		if p, ok := v.Env["policy"].(float64); ok {
			pol = mcrt.Policy(int(p))
		}
		sig, what, _, _ := check(dj, pol)
		if sig == "" {
			return ""
		}
		return sig + ": " + what
	}
}

func init() {
	register(&Check{ID: "C11", Run: func(c *Ctx) {
		// quick: pairs over chains <= 1 and all non-schema holders, singles over chains <= 3
		// thorough: pairs over chains <= 2, singles over chains <= 4
		pairChain, singleChain := 1, 3
		if c.Thorough() {
			pairChain, singleChain = 2, 4
		}
		c.Bounds["pairs_chain_len"] = pairChain
		c.Bounds["singles_chain_len"] = singleChain
		c.Bounds["step_alphabet"] = len(stepAlphabet("x"))
		cat := c11Catalogue(pairChain)
		c.Bounds["catalogue_pairs"] = len(cat)
		runDocCatalogue(c, "c11", cat, 2, c11Check)
		var deep []option
		for _, p := range schemaPositions(pairChain+1, singleChain) {
			p := p
			deep = append(deep, option{Label: "schemaref@" + p.Label, Plants: func(inst, pi int) []gen.Plant {
				return plantAt(p, inst, gen.J{"$ref": refForms[pi%len(refForms)]})
			}})
		}
		c.Bounds["catalogue_singles"] = len(deep)
		runDocCatalogue(c, "c11", deep, 1, c11Check)
	}, Replay: replayDoc(c11Check)})
}

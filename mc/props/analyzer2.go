package props

import (
	"fmt"
	"reflect"
	"sort"
	"strconv"
	"strings"

	"verif/mc/gen"
	"verif/mc/h"
	"verif/mc/mcrt"
	"verif/mc/oracle"
)

// ---- C12 ----

var pathTemplates = []string{"/p/{id}", "/a b/{x}", "/ü~/{c}/q?"}

// named positions: chains whose named steps and root use name nm.
func namedPositions(nm string, minLen, maxLen int) []position {
	var out []position
	var rec func(l int) [][]gen.Step
	rec = func(l int) [][]gen.Step {
		if l == 0 {
			return [][]gen.Step{nil}
		}
		var r [][]gen.Step
		for _, pre := range rec(l - 1) {
			for _, s := range stepAlphabet(nm) {
				r = append(r, append(append([]gen.Step(nil), pre...), s))
			}
		}
		return r
	}
	for _, r := range gen.RootKinds {
		for l := minLen; l <= maxLen; l++ {
			for _, c := range rec(l) {
				out = append(out, position{Root: r, Chain: c, Label: r + "/" + strings.Join(gen.ChainTokens(c), "/")})
			}
		}
	}
	return out
}

func c12Catalogue(names []string, minLen, maxLen int, withRefs bool) []option {
	var opts []option
	for ni, nm := range names {
		nm, pt := nm, pathTemplates[ni%len(pathTemplates)]
		for _, p := range namedPositions(nm, minLen, maxLen) {
			p := p
			opts = append(opts, option{Label: fmt.Sprintf("schema[%s]@%s", nm, p.Label), Plants: func(inst, pi int) []gen.Plant {
				n := nm
				if inst == 1 {
					n = nm + "2"
				}
				pl := plantAtNamed(p, inst, n, pt, gen.J{"description": "s" + strconv.Itoa(pi)})
				if pt != gen.BasePath {
					pl = append(pl, gen.P(gen.J{"description": "ok"}, "paths", pt, "get", "responses", "200"))
				}
				return pl
			}})
			if ni >= 3 || !withRefs {
				continue
			}
			// the schema at this position is a $ref AND has schema-bearing sibling keywords: the nested schemas are schemas
			// of the document like any other (and the allOf flag applies to the holder)
			opts = append(opts, option{Label: fmt.Sprintf("refWithChildren[%s]@%s", nm, p.Label), Plants: func(inst, pi int) []gen.Plant {
				n := nm
				if inst == 1 {
					n = nm + "2"
				}
				pl := plantAtNamed(p, inst, n, pt, gen.J{"$ref": "#/definitions/refTarget", "description": "r" + strconv.Itoa(pi),
					"properties": gen.J{"kid": gen.J{"type": "string", "description": "kid"}},
					"allOf":      []any{gen.J{"description": "member"}},
					"items":      gen.J{"type": "object", "additionalProperties": gen.J{"description": "deep"}}})
				if pt != gen.BasePath {
					pl = append(pl, gen.P(gen.J{"description": "ok"}, "paths", pt, "get", "responses", "200"))
				}
				return pl
			}})
		}
	}
	return opts
}

func c12Check(docJSON string, pol mcrt.Policy) (sig, what string, nontrivial bool, outcome string) {
	an, obs, doc := analyzeDoc(docJSON, pol)
	if obs == nil {
		return "", "", false, ""
	}
	if obs.Out.Crashed() {
		return "crash " + obs.Out.Class() + " at " + obs.Out.PanicFrame, obs.Out.Panic, false, "crash"
	}
	w := oracle.WalkDoc(doc)
	exp := map[string]*oracle.SchemaEntry{}
	for i := range w.Schemas {
		exp[oracle.TokKey(w.Schemas[i].Tokens)] = &w.Schemas[i]
	}
	nontrivial = len(w.Schemas) > 1
	var o h.Outcome
	var keys []string
	h.Guard(&o, func() {
		defs := an.AllDefinitions()
		seen := map[string]bool{}
		for _, d := range defs {
			toks, ok := oracle.PointerTokens(d.Ref.String(), true)
			if !ok {
				sig, what = "schema ref is not a local pointer", fmt.Sprintf("entry %q has Ref %q", d.Name, d.Ref.String())
				return
			}
			k := oracle.TokKey(toks)
			keys = append(keys, k)
			e := exp[k]
			if e == nil {
				sig, what = "schema indexed under a pointer that is not a schema of the document", fmt.Sprintf("Ref %q (tokens %q) does not designate a schema; schemas are %v", d.Ref.String(), toks, schemaKeys(w))
				return
			}
			if seen[k] {
				sig, what = "schema listed twice", d.Ref.String()
				return
			}
			seen[k] = true
			if got := h.ToJSON(h.Marshal(d.Schema)); !reflect.DeepEqual(got, e.Value) {
				sig, what = "indexed schema differs from the schema its pointer resolves to", fmt.Sprintf("Ref %q: entry holds %s, the document holds %s at that pointer", d.Ref.String(), mustJSON(got), mustJSON(e.Value))
				return
			}
			if v, ok := oracle.Resolve(doc, toks); !ok || !reflect.DeepEqual(v, e.Value) {
				sig, what = "pointer does not resolve", d.Ref.String()
				return
			}
			if d.TopLevel != e.TopLevel {
				sig, what = "wrong TopLevel flag", fmt.Sprintf("Ref %q: TopLevel=%v, expected %v", d.Ref.String(), d.TopLevel, e.TopLevel)
				return
			}
		}
		if len(defs) != len(w.Schemas) {
			sig, what = "schema missing from AllDefinitions", fmt.Sprintf("%d entries, the document has %d schemas: %v", len(defs), len(w.Schemas), schemaKeys(w))
			return
		}
		// allOf view
		var gotAll, expAll []string
		for _, d := range an.SchemasWithAllOf() {
			toks, _ := oracle.PointerTokens(d.Ref.String(), true)
			gotAll = append(gotAll, oracle.TokKey(toks))
		}
		for _, e := range w.Schemas {
			if e.HasAllOf {
				expAll = append(expAll, oracle.TokKey(e.Tokens))
			}
		}
		if !sameMultiset(gotAll, expAll) {
			sig, what = "wrong SchemasWithAllOf", fmt.Sprintf("got %v expected %v", sortedCopy(gotAll), sortedCopy(expAll))
		}
	})
	if o.Crashed() {
		return "crash in getters at " + o.PanicFrame, o.Panic, nontrivial, "crash"
	}
	sort.Strings(keys)
	return sig, what, nontrivial, strings.Join(keys, "|")
}

func schemaKeys(w *oracle.Walk) []string {
	var r []string
	for _, e := range w.Schemas {
		r = append(r, "/"+strings.Join(e.Tokens, "/"))
	}
	return r
}

// ---- C13 ----

func c13Catalogue(maxChain int) []option {
	var opts []option
	pt := gen.BasePath
	type owner struct {
		label  string
		plants func(inst int, typ string) ([]string, []gen.Plant) // path of the owner + context
	}
	var owners []owner
	add := func(label string, f func(inst int, typ string) ([]string, []gen.Plant)) {
		owners = append(owners, owner{label, f})
	}
	hdrNames := []string{"X-H0", "x-rate-limit", "ETag"}
	// parameter locations: every non-body location on shared, path-level and GET parameters; one location per other method
	locs := []string{"query", "path", "header", "formData"}
	for _, in := range locs {
		in := in
		add("sharedParam."+in, func(inst int, typ string) ([]string, []gen.Plant) {
			p := []string{"parameters", "q" + in + strconv.Itoa(inst)}
			return p, []gen.Plant{gen.P(gen.J{"name": "q", "in": in, "type": typ}, p...)}
		})
		add("pathParam."+in, func(inst int, typ string) ([]string, []gen.Plant) {
			p := []string{"paths", pt, "parameters", strconv.Itoa(inst)}
			return p, []gen.Plant{gen.P(gen.J{"name": "q" + strconv.Itoa(inst), "in": in, "type": typ}, p...)}
		})
	}
	// shared parameters / responses whose names need escaping in a JSON pointer or a URL, and owners under such path templates
	for _, nm := range []string{"a/b", "t~x", "pet owner", "ü", "h#", "q?", "{c}", "b[0]"} {
		nm := nm
		add("sharedParamNamed["+nm+"]", func(inst int, typ string) ([]string, []gen.Plant) {
			p := []string{"parameters", nm + strings.Repeat("x", inst)}
			return p, []gen.Plant{gen.P(gen.J{"name": "q", "in": "query", "type": typ}, p...)}
		})
		add("sharedHeaderNamed["+nm+"]", func(inst int, typ string) ([]string, []gen.Plant) {
			p := []string{"responses", nm + strings.Repeat("x", inst), "headers", "X-H"}
			return p, []gen.Plant{gen.P(gen.J{"type": typ}, p...), gen.P(gen.J{"description": "d"}, p[:2]...)}
		})
	}
	for _, spt := range []string{"/~a/{b}", "/a b/{x}", "/ü/q?"} {
		spt := spt
		add("opParamAtPath["+spt+"]", func(inst int, typ string) ([]string, []gen.Plant) {
			p := []string{"paths", spt, "put", "parameters", strconv.Itoa(inst)}
			return p, []gen.Plant{gen.P(gen.J{"name": "q" + strconv.Itoa(inst), "in": "query", "type": typ}, p...),
				gen.P(gen.J{"description": "ok"}, "paths", spt, "put", "responses", "200")}
		})
		add("pathParamAtPath["+spt+"]", func(inst int, typ string) ([]string, []gen.Plant) {
			p := []string{"paths", spt, "parameters", strconv.Itoa(inst)}
			return p, []gen.Plant{gen.P(gen.J{"name": "q" + strconv.Itoa(inst), "in": "header", "type": typ}, p...)}
		})
		add("codeHeaderAtPath["+spt+"]", func(inst int, typ string) ([]string, []gen.Plant) {
			p := []string{"paths", spt, "get", "responses", "200", "headers", "X-H" + strings.Repeat("x", inst)}
			return p, []gen.Plant{gen.P(gen.J{"type": typ}, p...), gen.P(gen.J{"description": "ok"}, p[:5]...)}
		})
	}
	for mi, m := range oracle.Methods7 {
		m := m
		ins := []string{locs[mi%4]}
		if m == "get" {
			ins = locs
		}
		for _, in := range ins {
			in := in
			add("opParam."+m+"."+in, func(inst int, typ string) ([]string, []gen.Plant) {
				p := []string{"paths", pt, m, "parameters", strconv.Itoa(inst)}
				return p, []gen.Plant{gen.P(gen.J{"name": "q" + strconv.Itoa(inst), "in": in, "type": typ}, p...),
					gen.P(gen.J{"description": "ok"}, "paths", pt, m, "responses", "200")}
			})
		}
		// header names: canonical and non-canonical spellings (all three under get, one per other method)
		names := []string{hdrNames[mi%3]}
		if m == "get" {
			names = hdrNames
		}
		for _, hn := range names {
			hn := hn
			add("defaultHeader."+m+"."+hn, func(inst int, typ string) ([]string, []gen.Plant) {
				p := []string{"paths", pt, m, "responses", "default", "headers", hn + strings.Repeat("x", inst)}
				return p, []gen.Plant{gen.P(gen.J{"type": typ}, p...), gen.P(gen.J{"description": "d"}, p[:5]...)}
			})
			add("codeHeader."+m+"."+hn, func(inst int, typ string) ([]string, []gen.Plant) {
				p := []string{"paths", pt, m, "responses", "200", "headers", hn + strings.Repeat("x", inst)}
				return p, []gen.Plant{gen.P(gen.J{"type": typ}, p...), gen.P(gen.J{"description": "ok"}, p[:5]...)}
			})
		}
	}
	for _, hn := range hdrNames {
		hn := hn
		add("sharedHeader."+hn, func(inst int, typ string) ([]string, []gen.Plant) {
			p := []string{"responses", "sr" + strconv.Itoa(inst), "headers", hn}
			return p, []gen.Plant{gen.P(gen.J{"type": typ}, p...), gen.P(gen.J{"description": "d"}, p[:2]...)}
		})
	}
	payload := func(kw string, pi int) gen.J {
		if kw == "pattern" {
			return gen.J{"pattern": "^p" + strconv.Itoa(pi%7) + "$"}
		}
		return gen.J{"enum": []any{"e" + strconv.Itoa(pi%7), "f"}}
	}
	for _, ow := range owners {
		ow := ow
		for _, kw := range []string{"pattern", "enum"} {
			kw := kw
			opts = append(opts, option{Label: kw + "@" + ow.label, Plants: func(inst, pi int) []gen.Plant {
				p, ctx := ow.plants(inst, "string")
				return append(ctx, gen.P(payload(kw, pi), p...))
			}})
			// the owner itself is an array AND carries the keyword, next to items that carry one too (two features of one owner)
			opts = append(opts, option{Label: fmt.Sprintf("%s@%s+items", kw, ow.label), Plants: func(inst, pi int) []gen.Plant {
				p, ctx := ow.plants(inst, "array")
				pl := append([]gen.Plant(nil), ctx...)
				pl = append(pl, gen.P(payload(kw, pi), p...))
				items := append(append([]string(nil), p...), "items")
				other := "enum"
				if kw == "enum" {
					other = "pattern"
				}
				return append(pl, gen.P(gen.J{"type": "string"}, items...), gen.P(payload(other, pi+1), items...))
			}})
			for depth := 1; depth <= 3; depth++ {
				d := depth
				if d > 1 && (strings.Contains(ow.label, "Named[") || strings.Contains(ow.label, "AtPath[")) {
					continue // names and path templates: the owner itself and one level of items
				}
				opts = append(opts, option{Label: fmt.Sprintf("%s@%s/items%d", kw, ow.label, d), Plants: func(inst, pi int) []gen.Plant {
					p, ctx := ow.plants(inst, "array")
					pl := append([]gen.Plant(nil), ctx...)
					cur := append([]string(nil), p...)
					for i := 1; i <= d; i++ {
						cur = append(cur, "items")
						if i < d {
							pl = append(pl, gen.P(gen.J{"type": "array"}, cur...))
						} else {
							pl = append(pl, gen.P(gen.J{"type": "string"}, cur...))
						}
					}
					return append(pl, gen.P(payload(kw, pi), cur...))
				}})
			}
		}
	}
	for _, p := range schemaPositions(0, maxChain) {
		p := p
		for _, kw := range []string{"pattern", "enum"} {
			kw := kw
			opts = append(opts, option{Label: kw + "@schema:" + p.Label, Plants: func(inst, pi int) []gen.Plant {
				return plantAt(p, inst, payload(kw, pi))
			}})
		}
	}
	// schemas reached through definition / property names with special characters ('%' included: this property does not
	// restrict the names) and through special path templates
	for _, nm := range []string{"rate%", "vat%20x", "a/b", "t~x", "pet owner", "al~1"} {
		nm := nm
		for _, kw := range []string{"pattern", "enum"} {
			kw := kw
			opts = append(opts, option{Label: kw + "@schemaNamed[" + nm + "]", Plants: func(inst, pi int) []gen.Plant {
				n := nm + strings.Repeat("x", inst)
				return []gen.Plant{gen.P(gen.J{"type": "object"}, "definitions", n), gen.P(gen.J{"type": "string"}, "definitions", n, "properties", nm), gen.P(payload(kw, pi), "definitions", n, "properties", nm)}
			}})
		}
	}
	return opts
}

func c13Check(docJSON string, pol mcrt.Policy) (sig, what string, nontrivial bool, outcome string) {
	an, obs, doc := analyzeDoc(docJSON, pol)
	if obs == nil {
		return "", "", false, ""
	}
	if obs.Out.Crashed() {
		return "crash " + obs.Out.Class() + " at " + obs.Out.PanicFrame, obs.Out.Panic, false, "crash"
	}
	w := oracle.WalkDoc(doc)
	nontrivial = len(w.Patterns)+len(w.Enums) > 0
	expP := map[string]map[string]string{"parameter": {}, "header": {}, "items": {}, "schema": {}, "all": {}}
	expE := map[string]map[string]string{"parameter": {}, "header": {}, "items": {}, "schema": {}, "all": {}}
	for _, e := range w.Patterns {
		k := "/" + strings.Join(e.Tokens, "\x00")
		expP[e.Cat][k] = e.Pattern
		expP["all"][k] = e.Pattern
	}
	for _, e := range w.Enums {
		k := "/" + strings.Join(e.Tokens, "\x00")
		expE[e.Cat][k] = mustJSON(e.Enum)
		expE["all"][k] = mustJSON(e.Enum)
	}
	var o h.Outcome
	var sb strings.Builder
	h.Guard(&o, func() {
		conv := func(view string, m map[string]string) map[string]string {
			out := map[string]string{}
			for k, v := range m {
				toks, ok := oracle.PointerTokens(k, false)
				if !ok {
					sig, what = "key is not a pointer", view+": "+k
					continue
				}
				out["/"+strings.Join(toks, "\x00")] = v
			}
			return out
		}
		enumConv := func(m map[string][]interface{}) map[string]string {
			out := map[string]string{}
			for k, v := range m {
				out[k] = mustJSON(v)
			}
			return out
		}
		views := []struct {
			name string
			got  map[string]string
			exp  map[string]string
		}{
			{"ParameterPatterns", an.ParameterPatterns(), expP["parameter"]}, {"HeaderPatterns", an.HeaderPatterns(), expP["header"]},
			{"ItemsPatterns", an.ItemsPatterns(), expP["items"]}, {"SchemaPatterns", an.SchemaPatterns(), expP["schema"]}, {"AllPatterns", an.AllPatterns(), expP["all"]},
			{"ParameterEnums", enumConv(an.ParameterEnums()), expE["parameter"]}, {"HeaderEnums", enumConv(an.HeaderEnums()), expE["header"]},
			{"ItemsEnums", enumConv(an.ItemsEnums()), expE["items"]}, {"SchemaEnums", enumConv(an.SchemaEnums()), expE["schema"]}, {"AllEnums", enumConv(an.AllEnums()), expE["all"]},
		}
		for _, v := range views {
			g := conv(v.name, v.got)
			if sig != "" {
				return
			}
			fmt.Fprintf(&sb, "%s=%d;", v.name, len(g))
			if !reflect.DeepEqual(g, v.exp) && !(len(g) == 0 && len(v.exp) == 0) {
				// name the first difference: owner class of the missing/extra key
				cls := ""
				for k := range v.exp {
					if _, ok := g[k]; !ok {
						cls = "missing " + ownerClass(k)
						break
					}
				}
				if cls == "" {
					for k := range g {
						if _, ok := v.exp[k]; !ok {
							cls = "extra " + ownerClass(k)
							break
						}
					}
				}
				if cls == "" {
					cls = "wrong value"
				}
				sig = "wrong " + v.name + ": " + cls
				what = fmt.Sprintf("%s = %v, the document declares %v", v.name, printable(g), printable(v.exp))
				return
			}
		}
	})
	if o.Crashed() {
		return "crash in getters at " + o.PanicFrame, o.Panic, nontrivial, "crash"
	}
	return sig, what, nontrivial, sb.String() + obs.Before
}

func printable(m map[string]string) map[string]string {
	out := map[string]string{}
	for k, v := range m {
		out[strings.ReplaceAll(k, "\x00", "/")] = v
	}
	return out
}

// ownerClass abstracts a pointer into the kind of owner (for signatures).
func ownerClass(k string) string {
	toks := strings.Split(strings.TrimPrefix(k, "/"), "\x00")
	var out []string
	for i, t := range toks {
		switch {
		case i == 1 && toks[0] == "paths":
			out = append(out, "<path>")
		case i == 1 && (toks[0] == "parameters" || toks[0] == "responses" || toks[0] == "definitions"):
			out = append(out, "<name>")
		case i > 0 && toks[i-1] == "headers":
			out = append(out, "<header>")
		case i > 0 && (toks[i-1] == "properties" || toks[i-1] == "patternProperties" || toks[i-1] == "definitions"):
			out = append(out, "<name>")
		default:
			if _, err := strconv.Atoi(t); err == nil {
				if i > 0 && toks[i-1] == "responses" {
					out = append(out, "<code>")
				} else {
					out = append(out, "<i>")
				}
			} else {
				out = append(out, t)
			}
		}
	}
	if len(out) > 7 {
		out = append(out[:7], "...")
	}
	return strings.Join(out, "/")
}

func init() {
	register(&Check{ID: "C12", Run: func(c *Ctx) {
		// singles: every name of Sigma at every name slot (root name, named steps), chains <= 2 (quick) / 3 (thorough)
		// pairs: three names, chains <= 1 (quick) / all names, chains <= 1 (thorough)
		single, pairNames := 2, []string{"a/b", "pet owner", "{c}"}
		if c.Thorough() {
			single, pairNames = 3, gen.SigmaCore
		}
		c.Bounds["singles_chain_len"] = single
		c.Bounds["pairs_chain_len"] = 1
		c.Bounds["names"] = gen.Sigma
		c.Bounds["path_templates"] = pathTemplates
		cat := c12Catalogue(gen.Sigma, 0, single, true)
		if !c.Thorough() {
			// quick: chains of three keywords for one plain name (depth-dependent slips), all lengths for every name in thorough
			cat = append(cat, c12Catalogue([]string{"a"}, 3, 3, false)...)
		}
		c.Bounds["catalogue_singles"] = len(cat)
		runDocCatalogue(c, "c12", cat, 1, c12Check)
		pc := c12Catalogue(pairNames, 0, 1, c.Thorough())
		c.Bounds["catalogue_pairs"] = len(pc)
		runDocCatalogue(c, "c12", pc, 2, c12Check)
	}, Replay: replayDoc(c12Check)})
	register(&Check{ID: "C13", Run: func(c *Ctx) {
		maxChain := 1
		if c.Thorough() {
			maxChain = 2
		}
		cat := c13Catalogue(maxChain)
		c.Bounds["schema_chain_len"] = maxChain
		c.Bounds["items_nesting"] = 3
		c.Bounds["catalogue"] = len(cat)
		c.Bounds["plants_per_document"] = 2
		if c.Thorough() {
			runDocCatalogue(c, "c13", cat, 2, c13Check)
			return
		}
		// quick: every single plant of the whole catalogue; every pair of plants of the core catalogue (owners under the
		// base path template with plain names; the name / path-template / non-GET location variants occur as singles)
		runDocCatalogue(c, "c13", cat, 1, c13Check)
		var core []option
		for _, o := range cat {
			if strings.Contains(o.Label, "Named[") || strings.Contains(o.Label, "AtPath[") {
				continue
			}
			core = append(core, o)
		}
		c.Bounds["catalogue_pairs"] = len(core)
		runDocCatalogue(c, "c13", core, 2, c13Check)
	}, Replay: replayDoc(c13Check)})
}

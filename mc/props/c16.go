package props

import (
	"encoding/json"
	"fmt"
	"hash/fnv"
	"reflect"
	"sort"
	"strings"
	"sync"
	"unsafe"

	"github.com/go-openapi/analysis"
	"github.com/go-openapi/spec"

	"verif/mc/gen"
	"verif/mc/h"
	"verif/mc/mcrt"
	"verif/mc/mcx"
)

// ---- C16: analysis is read-only, copy-safe and safe for concurrent readers ----

const c16Rich = `{"swagger":"2.0","info":{"title":"t","version":"1"},"consumes":["application/json"],"produces":["application/json","text/plain"],
"security":[{"k":["s"]}],"securityDefinitions":{"k":{"type":"oauth2","flow":"implicit","authorizationUrl":"http://x","scopes":{"s":"d"}},"j":{"type":"basic"}},
"parameters":{"sp":{"name":"sp","in":"query","type":"string","pattern":"^s$","enum":["a","b"]},"body":{"name":"body","in":"body","schema":{"$ref":"#/definitions/pet"}}},
"responses":{"sr":{"description":"d","headers":{"X-R":{"type":"array","items":{"type":"string","pattern":"^h$","enum":["x"]},"pattern":"^hp$"}},"schema":{"$ref":"#/definitions/pet"}}},
"paths":{"/p/{id}":{"parameters":[{"name":"id","in":"path","required":true,"type":"string","pattern":"^[0-9]+$"},{"$ref":"#/parameters/sp"}],
 "get":{"operationId":"getP","consumes":["application/xml"],"security":[{"j":[]}],"parameters":[{"name":"q","in":"query","type":"array","items":{"type":"string","enum":["u","v"],"pattern":"^q$"}}],
  "responses":{"200":{"description":"ok","headers":{"X-H":{"type":"string","enum":["h1"]}},"schema":{"type":"object","properties":{"a":{"type":"string","pattern":"^a$"}},"allOf":[{"$ref":"#/definitions/pet"}]}},"404":{"$ref":"#/responses/sr"},"default":{"description":"d","headers":{"X-D":{"type":"string","pattern":"^d$","enum":["d1"]}}}}},
 "post":{"parameters":[{"$ref":"#/parameters/body"}],"responses":{"201":{"description":"created"}}}},
 "/q":{"options":{"operationId":"optQ","produces":["a/b"],"responses":{"200":{"description":"ok"}}}}},
"definitions":{"pet":{"type":"object","properties":{"name":{"type":"string","enum":["n1","n2"]},"tags":{"type":"array","items":{"$ref":"#/definitions/tag"}}}},"tag":{"type":"string","pattern":"^t$"}}}`

// c16Dirty: unsorted lists with repeated entries at document and operation level (a getter that sorts, compacts or
// de-duplicates a list in place modifies the document), operations declaring only one of consumes/produces.
const c16Dirty = `{"swagger":"2.0","info":{"title":"t","version":"1"},"schemes":["https","http","https"],"consumes":["y/y","b/b","y/y"],"produces":["z/z","a/a","z/z","m/m"],
"security":[{"k":["s2","s1","s2"]},{"j":[]},{"k":["s2","s1","s2"]},{"k":["s2","s1"],"j":[]},{"j":null}],"securityDefinitions":{"k":{"type":"oauth2","flow":"implicit","authorizationUrl":"http://x","scopes":{"s1":"d","s2":"e"}},"j":{"type":"basic"}},
"tags":[{"name":"t2"},{"name":"t1"},{"name":"t2"}],
"paths":{"/p/{id}":{"parameters":[{"name":"id","in":"path","required":true,"type":"string","enum":["z","a","z"]}],
 "get":{"operationId":"getP","tags":["t2","t1","t2"],"consumes":["q/q","c/c","q/q"],"security":[{"j":[]},{"k":["s1"]},{"j":[]},{"j":[],"k":["s2","s1"]}],"parameters":[{"name":"q","in":"query","type":"array","items":{"type":"string","enum":["v","u","v"]}}],
  "responses":{"200":{"description":"ok","headers":{"X-H":{"type":"string","enum":["h2","h1","h2"]}},"schema":{"type":"string","enum":["n2","n1","n2"]}}}},
 "put":{"operationId":"putP","produces":["w/w","d/d","w/w"],"security":[{"k":null},{"j":null,"k":["s1"]}],"responses":{"200":{"description":"ok"}}},
 "post":{"operationId":"postP","consumes":[],"produces":[],"security":[],"responses":{"201":{"description":"created"}}}},
 "/q":{"options":{"operationId":"optQ","responses":{"200":{"description":"ok"}}}}},
"definitions":{"pet":{"type":"object","required":["b","a","b"],"properties":{"a":{"type":"string","enum":["n2","n1","n2"]},"b":{"type":"integer"}}}}}`

// c16Params: three path-level parameters (decoding three elements leaves spare capacity in the slice) next to operations
// that have parameters of their own, one of them overriding a path-level one.
const c16Params = `{"swagger":"2.0","info":{"title":"t","version":"1"},
"parameters":{"sp":{"name":"sp","in":"query","type":"string"}},
"paths":{"/p/{id}":{"parameters":[{"name":"id","in":"path","required":true,"type":"string"},{"name":"trace","in":"header","type":"string"},{"$ref":"#/parameters/sp"}],
 "get":{"operationId":"getP","parameters":[{"name":"limit","in":"query","type":"integer"},{"name":"trace","in":"header","type":"integer"}],"responses":{"200":{"description":"ok"}}},
 "post":{"operationId":"postP","parameters":[{"name":"body","in":"body","schema":{"type":"object"}}],"responses":{"201":{"description":"created"}}},
 "delete":{"operationId":"delP","responses":{"204":{"description":"gone"}}}},
 "/a":{"parameters":[{"name":"one","in":"query","type":"string"}],
 "put":{"operationId":"putA","parameters":[{"name":"x","in":"query","type":"string"},{"name":"y","in":"query","type":"string"},{"name":"one","in":"query","type":"integer"}],"responses":{"200":{"description":"ok"}}},
 "patch":{"operationId":"patchA","parameters":[{"name":"z","in":"header","type":"string"}],"responses":{"200":{"description":"ok"}}}},
 "/b":{"parameters":[{"name":"u","in":"query","type":"string"},{"$ref":"#/parameters/sp"}],
 "head":{"operationId":"headB","parameters":[{"name":"v","in":"query","type":"string"},{"name":"w","in":"header","type":"string"}],"responses":{"200":{"description":"ok"}}},
 "options":{"operationId":"optB","parameters":[{"name":"u","in":"query","type":"integer"}],"responses":{"200":{"description":"ok"}}}},
 "/q":{"options":{"operationId":"optQ","responses":{"200":{"description":"ok"}}}}}}`

type qop struct {
	Name string
	Run  func(an *analysis.Spec) string
}

func sortedJoin(l []string) string { return strings.Join(sortedCopy(l), "|") }

func mapStr(m map[string]string) string {
	var l []string
	for k, v := range m {
		l = append(l, k+"="+v)
	}
	return sortedJoin(l)
}

func enumStr(m map[string][]interface{}) string {
	var l []string
	for k, v := range m {
		l = append(l, k+"="+mustJSON(v))
	}
	return sortedJoin(l)
}

func c16Ops() []qop {
	var ops []qop
	add := func(name string, f func(an *analysis.Spec) string) { ops = append(ops, qop{name, f}) }
	sl := func(name string, f func(an *analysis.Spec) []string) {
		add(name, func(an *analysis.Spec) string { return sortedJoin(f(an)) })
	}
	sl("AllReferences", (*analysis.Spec).AllReferences)
	sl("AllDefinitionReferences", (*analysis.Spec).AllDefinitionReferences)
	sl("AllParameterReferences", (*analysis.Spec).AllParameterReferences)
	sl("AllResponseReferences", (*analysis.Spec).AllResponseReferences)
	sl("AllPathItemReferences", (*analysis.Spec).AllPathItemReferences)
	sl("AllItemsReferences", (*analysis.Spec).AllItemsReferences)
	sl("OperationIDs", (*analysis.Spec).OperationIDs)
	sl("OperationMethodPaths", (*analysis.Spec).OperationMethodPaths)
	sl("RequiredConsumes", (*analysis.Spec).RequiredConsumes)
	sl("RequiredProduces", (*analysis.Spec).RequiredProduces)
	sl("RequiredSecuritySchemes", (*analysis.Spec).RequiredSecuritySchemes)
	// the same, mutating the returned slice (in place sort, overwrite, append into the capacity)
	slm := func(name string, f func(an *analysis.Spec) []string) {
		add(name+"+mutateResult", func(an *analysis.Spec) string {
			r := f(an)
			out := sortedJoin(r)
			sort.Strings(r)
			if len(r) > 0 {
				r[0] = "zz-overwritten"
			}
			r = append(r[:len(r):cap(r)][:len(r)], "zz-appended")
			_ = r
			return out
		})
	}
	slm("OperationIDs", (*analysis.Spec).OperationIDs)
	slm("RequiredConsumes", (*analysis.Spec).RequiredConsumes)
	slm("RequiredProduces", (*analysis.Spec).RequiredProduces)
	slm("RequiredSecuritySchemes", (*analysis.Spec).RequiredSecuritySchemes)
	slm("AllReferences", (*analysis.Spec).AllReferences)
	add("AllRefs", func(an *analysis.Spec) string {
		var l []string
		for _, r := range an.AllRefs() {
			l = append(l, r.String())
		}
		return sortedJoin(l)
	})
	add("AllDefinitions", func(an *analysis.Spec) string {
		var l []string
		for _, d := range an.AllDefinitions() {
			l = append(l, fmt.Sprintf("%s|%v|%s", d.Ref.String(), d.TopLevel, h.Marshal(d.Schema)))
		}
		return sortedJoin(l)
	})
	add("SchemasWithAllOf", func(an *analysis.Spec) string {
		var l []string
		for _, d := range an.SchemasWithAllOf() {
			l = append(l, d.Ref.String())
		}
		return sortedJoin(l)
	})
	type pg struct {
		name string
		f    func(an *analysis.Spec) map[string]string
	}
	for _, g := range []pg{{"ParameterPatterns", (*analysis.Spec).ParameterPatterns}, {"HeaderPatterns", (*analysis.Spec).HeaderPatterns}, {"ItemsPatterns", (*analysis.Spec).ItemsPatterns},
		{"SchemaPatterns", (*analysis.Spec).SchemaPatterns}, {"AllPatterns", (*analysis.Spec).AllPatterns}} {
		g := g
		add(g.name, func(an *analysis.Spec) string { return mapStr(g.f(an)) })
		add(g.name+"+addEntry", func(an *analysis.Spec) string {
			m := g.f(an)
			out := mapStr(m)
			m["#/zz-injected"] = "^zz$"
			return out
		})
		add(g.name+"+deleteEntries", func(an *analysis.Spec) string {
			m := g.f(an)
			out := mapStr(m)
			for k := range m {
				delete(m, k)
			}
			return out
		})
	}
	type eg struct {
		name string
		f    func(an *analysis.Spec) map[string][]interface{}
	}
	for _, g := range []eg{{"ParameterEnums", (*analysis.Spec).ParameterEnums}, {"HeaderEnums", (*analysis.Spec).HeaderEnums}, {"ItemsEnums", (*analysis.Spec).ItemsEnums},
		{"SchemaEnums", (*analysis.Spec).SchemaEnums}, {"AllEnums", (*analysis.Spec).AllEnums}} {
		g := g
		add(g.name, func(an *analysis.Spec) string { return enumStr(g.f(an)) })
		add(g.name+"+addEntry", func(an *analysis.Spec) string {
			m := g.f(an)
			out := enumStr(m)
			m["#/zz-injected"] = []interface{}{"zz"}
			return out
		})
		add(g.name+"+deleteEntries", func(an *analysis.Spec) string {
			m := g.f(an)
			out := enumStr(m)
			for k := range m {
				delete(m, k)
			}
			return out
		})
	}
	add("Operations", func(an *analysis.Spec) string {
		var l []string
		for m, bp := range an.Operations() {
			for p, op := range bp {
				l = append(l, m+" "+p+" "+string(h.Marshal(op)))
			}
		}
		return sortedJoin(l)
	})
	add("AllPaths", func(an *analysis.Spec) string {
		var l []string
		for p := range an.AllPaths() {
			l = append(l, p)
		}
		return sortedJoin(l)
	})
	for _, q := range [][2]string{{"get", "/p/{id}"}, {"POST", "/p/{id}"}, {"options", "/q"}, {"head", "/nope"}} {
		q := q
		add("OperationFor("+q[0]+","+q[1]+")", func(an *analysis.Spec) string {
			op, ok := an.OperationFor(q[0], q[1])
			return fmt.Sprint(ok) + string(h.Marshal(op))
		})
		add("perOperation("+q[0]+","+q[1]+")", func(an *analysis.Spec) string {
			op, ok := an.OperationFor(q[0], q[1])
			if !ok {
				return "none"
			}
			var sb strings.Builder
			sb.WriteString(sortedJoin(an.ConsumesFor(op)) + ";" + sortedJoin(an.ProducesFor(op)) + ";")
			reqs := an.SecurityRequirementsFor(op)
			sb.WriteString(fmt.Sprint(normReqs(reqs)) + ";")
			var dl []string
			for k, v := range an.SecurityDefinitionsFor(op) {
				dl = append(dl, k+"="+string(h.Marshal(v)))
			}
			sb.WriteString(sortedJoin(dl) + ";")
			for _, r := range reqs {
				var ks []string
				for k := range an.SecurityDefinitionsForRequirements(r) {
					ks = append(ks, k)
				}
				sb.WriteString(sortedJoin(ks) + ",") // a map: its iteration order is not part of the answer
			}
			return sb.String()
		})
		add("SafeParamsFor("+q[0]+","+q[1]+")+mutateResult", func(an *analysis.Spec) string {
			m := an.SafeParamsFor(q[0], q[1], func(spec.Parameter, error) bool { return true })
			var l []string
			for k, v := range m {
				l = append(l, k+"="+string(h.Marshal(v)))
			}
			m["zz#injected"] = spec.Parameter{}
			return sortedJoin(l)
		})
	}
	for _, id := range []string{"getP", "optQ", "nope", "postP", "putA", "patchA", "headB", "optB"} {
		id := id
		add("OperationForName("+id+")", func(an *analysis.Spec) string {
			m, p, _, ok := an.OperationForName(id)
			return fmt.Sprint(m, p, ok)
		})
		add("SafeParametersFor("+id+")", func(an *analysis.Spec) string {
			var l []string
			for _, v := range an.SafeParametersFor(id, func(spec.Parameter, error) bool { return true }) {
				l = append(l, string(h.Marshal(v)))
			}
			return sortedJoin(l)
		})
	}
	return ops
}

// ---- private state dump (reflect + unsafe), including slice capacity tails ----

func dumpValue(v reflect.Value, sb *strings.Builder, seen map[uintptr]bool, depth int) {
	if depth > 40 {
		sb.WriteString("<deep>")
		return
	}
	switch v.Kind() {
	case reflect.Ptr:
		if v.IsNil() {
			sb.WriteString("nil")
			return
		}
		if seen[v.Pointer()] {
			sb.WriteString("<seen>")
			return
		}
		seen[v.Pointer()] = true
		sb.WriteByte('&')
		dumpValue(v.Elem(), sb, seen, depth+1)
	case reflect.Interface:
		if v.IsNil() {
			sb.WriteString("nil")
			return
		}
		sb.WriteString(v.Elem().Type().String() + ":")
		dumpValue(v.Elem(), sb, seen, depth+1)
	case reflect.Struct:
		sb.WriteByte('{')
		for i := 0; i < v.NumField(); i++ {
			f := v.Field(i)
			if !f.CanInterface() {
				if f.CanAddr() {
					f = reflect.NewAt(f.Type(), unsafe.Pointer(f.UnsafeAddr())).Elem()
				} else {
					// copy to an addressable value
					c := reflect.New(v.Type()).Elem()
					c.Set(v)
					f = c.Field(i)
					f = reflect.NewAt(f.Type(), unsafe.Pointer(f.UnsafeAddr())).Elem()
				}
			}
			sb.WriteString(v.Type().Field(i).Name + ":")
			dumpValue(f, sb, seen, depth+1)
			sb.WriteByte(',')
		}
		sb.WriteByte('}')
	case reflect.Map:
		if v.IsNil() {
			sb.WriteString("nilmap")
			return
		}
		type kv struct {
			k string
			v reflect.Value
		}
		var l []kv
		it := v.MapRange()
		for it.Next() {
			var kb strings.Builder
			dumpValue(it.Key(), &kb, seen, depth+1)
			l = append(l, kv{kb.String(), it.Value()})
		}
		sort.Slice(l, func(i, j int) bool { return l[i].k < l[j].k })
		fmt.Fprintf(sb, "map[%d]{", len(l))
		for _, e := range l {
			sb.WriteString(e.k + "=>")
			dumpValue(e.v, sb, seen, depth+1)
			sb.WriteByte(';')
		}
		sb.WriteByte('}')
	case reflect.Slice:
		if v.IsNil() {
			sb.WriteString("nilslice")
			return
		}
		fmt.Fprintf(sb, "[len=%d ", v.Len())
		full := v
		if v.Cap() > v.Len() && v.Cap()-v.Len() <= 64 {
			full = v.Slice(0, v.Cap()) // the capacity tail is observable by an append
		}
		for i := 0; i < full.Len(); i++ {
			dumpValue(full.Index(i), sb, seen, depth+1)
			sb.WriteByte(',')
		}
		sb.WriteByte(']')
	case reflect.Array:
		sb.WriteByte('[')
		for i := 0; i < v.Len(); i++ {
			dumpValue(v.Index(i), sb, seen, depth+1)
			sb.WriteByte(',')
		}
		sb.WriteByte(']')
	case reflect.String:
		sb.WriteString(fmt.Sprintf("%q", v.String()))
	case reflect.Bool:
		fmt.Fprint(sb, v.Bool())
	case reflect.Int, reflect.Int8, reflect.Int16, reflect.Int32, reflect.Int64:
		fmt.Fprint(sb, v.Int())
	case reflect.Uint, reflect.Uint8, reflect.Uint16, reflect.Uint32, reflect.Uint64, reflect.Uintptr:
		fmt.Fprint(sb, v.Uint())
	case reflect.Float32, reflect.Float64:
		fmt.Fprint(sb, v.Float())
	case reflect.Func, reflect.Chan, reflect.UnsafePointer:
		if v.IsNil() {
			sb.WriteString("nil")
		} else {
			sb.WriteString("<" + v.Kind().String() + ">")
		}
	default:
		sb.WriteString("<" + v.Kind().String() + ">")
	}
}

// stateOf dumps the analyzer's private state and the document.
func stateOf(an *analysis.Spec, sw *spec.Swagger) (state, doc uint64) {
	var sb strings.Builder
	dumpValue(reflect.ValueOf(an), &sb, map[uintptr]bool{}, 0)
	f := fnv.New64a()
	f.Write([]byte(sb.String()))
	// the document: its serialization AND a reflective dump that includes the capacity tails of its slices (a query that
	// appends to a slice of the document writes into memory shared by every caller even when the serialization is unchanged)
	d := fnv.New64a()
	d.Write(h.Marshal(sw))
	var db strings.Builder
	dumpValue(reflect.ValueOf(sw), &db, map[uintptr]bool{}, 0)
	d.Write([]byte(db.String()))
	return f.Sum64(), d.Sum64()
}

func c16Docs(c *Ctx) []string {
	docs := []string{c16Rich, c16Dirty, c16Params}
	sk, _ := gen.Build(gen.Skeleton())
	docs = append(docs, gen.JSON(sk))
	addCat := func(cat []option, every int) {
		for i := range cat {
			if i%every != 0 {
				continue
			}
			if d, ok := buildFrom(cat, []int{i}); ok && normalForm(gen.JSON(d)) {
				docs = append(docs, gen.JSON(d))
			}
		}
	}
	if c.Thorough() {
		addCat(c13Catalogue(1), 1)
		addCat(c11Catalogue(1), 1)
	} else {
		addCat(c13Catalogue(0), 3)
		addCat(c11Catalogue(0), 3)
	}
	return docs
}

// c16Sequential: explicit-state search over call sequences from New(doc).
func c16Sequential(c *Ctx, docJSON string, ops []qop) {
	fresh := func() (*analysis.Spec, *spec.Swagger) {
		sw, err := h.LoadSwagger(docJSON)
		if err != nil {
			return nil, nil
		}
		mcrt.Reset(mcrt.Asc, nil, h.DefaultHorizon)
		return analysis.New(sw), sw
	}
	an0, sw0 := fresh()
	if an0 == nil {
		return
	}
	s0, _ := stateOf(an0, sw0)
	// reference answers: a fresh analysis of a fresh copy, one instance per operation
	ref := make([]string, len(ops))
	for i, op := range ops {
		a, _ := fresh()
		var o h.Outcome
		h.Guard(&o, func() { ref[i] = op.Run(a) })
		if o.Crashed() {
			ref[i] = "crash:" + o.Panic
		}
	}
	viol := func(sig, what string, path []int) {
		names := make([]string, len(path))
		for i, p := range path {
			names[i] = ops[p].Name
		}
		c.Violate(&Violation{Signature: sig, What: what + " after the call sequence " + fmt.Sprint(names), Generator: "c16", Input: J{"doc": json.RawMessage(docJSON)}, Env: J{"kind": "sequence", "path": names}})
	}
	type node struct{ path []int }
	seen := map[uint64]bool{s0: true}
	c.Outcome(s0)
	frontier := []node{{}}
	maxDepth := 3
	for depth := 0; depth < maxDepth && len(frontier) > 0; depth++ {
		var next []node
		for _, n := range frontier {
			for oi, op := range ops {
				an, sw := fresh()
				var o h.Outcome
				var ans string
				h.Guard(&o, func() {
					for _, p := range n.path {
						ops[p].Run(an)
					}
				})
				before, ddBefore := stateOf(an, sw)
				syncBefore := mcrt.Cur.SyncOps
				h.Guard(&o, func() { ans = op.Run(an) })
				c.Execs++
				c.Validated++
				path := append(append([]int(nil), n.path...), oi)
				if o.Crashed() {
					viol("query "+base(op.Name)+" "+o.Class(), o.Panic, path)
					continue
				}
				st, dd := stateOf(an, sw)
				c.Outcome(st)
				if dd != ddBefore {
					viol("query method modifies the document: "+base(op.Name), "the document changed during the last call of the sequence (its serialization, or the hidden capacity tail of one of its slices: memory shared with every other caller)", path)
				}
				if ans != ref[oi] {
					viol("answer differs from a fresh sequential analysis: "+base(op.Name), fmt.Sprintf("got %.300s want %.300s", ans, ref[oi]), path)
				}
				if st != before {
					if mcrt.Cur.SyncOps == syncBefore {
						kind := "query method writes the analyzer's state without synchronisation"
						if strings.Contains(op.Name, "+") {
							kind = "mutating a returned value changes the analyzer's state"
						}
						viol(kind+": "+base(op.Name), "private state of the Spec changed (0 synchronisation operations executed): a concurrent caller races with this write", path)
					}
					if !seen[st] {
						seen[st] = true
						next = append(next, node{path})
					}
				}
			}
		}
		frontier = next
	}
	c.Count("reachable_states_max_per_document", 0)
	if int64(len(seen)) > c.Counters["reachable_states_max_per_document"] {
		c.Counters["reachable_states_max_per_document"] = int64(len(seen))
	}
}

func base(name string) string {
	if i := strings.Index(name, "("); i > 0 {
		return name[:i] + strings.TrimLeft(name[strings.Index(name, ")")+1:], "")
	}
	return name
}

// c16Interleavings: 2 goroutines x 1 call for every ordered pair of operations under the cooperative scheduler;
// scheduling points at goroutine start/end and at every mcsync/mcatomic operation; all interleavings.
func c16Interleavings(c *Ctx, docJSON string, ops []qop, threads int) {
	sw0, err := h.LoadSwagger(docJSON)
	if err != nil {
		return
	}
	mcrt.Reset(mcrt.Asc, nil, h.DefaultHorizon)
	ref := make([]string, len(ops))
	for i, op := range ops {
		a := analysis.New(sw0)
		var o h.Outcome
		h.Guard(&o, func() { ref[i] = op.Run(a) })
	}
	d0 := string(h.Marshal(sw0))
	run := func(sel []int) {
		if c16ScheduleBudget > 0 && c16SchedulesRun >= c16ScheduleBudget {
			if !c16BudgetReported {
				c16BudgetReported = true
				c.Cap(fmt.Sprintf("schedule budget of this shard (%d schedules) used up: the remaining goroutine harnesses were not explored (many operations execute synchronisation operations)", c16ScheduleBudget))
			}
			return
		}
		e := mcx.New()
		e.MaxExec = 2000
		defer func() { c16SchedulesRun += e.Stats.Executions }()
		var answers []string
		var s *mcrt.Sched
		var sw *spec.Swagger
		e.Run(func(x *mcx.Exec) {
			sw, _ = h.LoadSwagger(docJSON)
			mcrt.Reset(mcrt.Asc, nil, h.DefaultHorizon)
			an := analysis.New(sw)
			answers = make([]string, len(sel))
			s = mcrt.NewSched(func(enabled []int, running int) int {
				return x.Choose(mcx.SCHED, len(enabled), fmt.Sprintf("sched%v", enabled))
			})
			for ti, oi := range sel {
				ti, oi := ti, oi
				s.Go(func() { answers[ti] = ops[oi].Run(an) })
			}
			s.Run()
		}, func(x *mcx.Exec) bool {
			c.Execs++
			c.Validated++
			c.ChoicePoints += int64(len(x.Points))
			c.Count("sync_points", int64(s.Points))
			names := make([]string, len(sel))
			for i, oi := range sel {
				names[i] = ops[oi].Name
			}
			viol := func(sig, what string) {
				c.Violate(&Violation{Signature: sig, What: fmt.Sprintf("%s; goroutines %v, schedule %v", what, names, s.Trace), Generator: "c16", Input: J{"doc": json.RawMessage(docJSON)},
					Env: J{"kind": "interleaving", "ops": names, "choices": x.Choices()}})
			}
			if s.Deadlock {
				viol("deadlock between concurrent readers", "no goroutine enabled")
			}
			if p := s.Panics(); len(p) > 0 {
				viol("panic in a concurrent reader: "+base(names[0]), fmt.Sprint(p))
			}
			for ti, oi := range sel {
				if answers[ti] != ref[oi] && len(s.Panics()) == 0 && !s.Deadlock {
					viol("concurrent reader gets a different answer than a sequential caller: "+base(ops[oi].Name), fmt.Sprintf("got %.200s want %.200s", answers[ti], ref[oi]))
				}
			}
			if string(h.Marshal(sw)) != d0 {
				viol("concurrent readers modify the document", "")
			}
			return true
		})
		if e.Stats.CapHit {
			c.Cap("interleaving exploration truncated at 2000 schedules for one harness")
		}
	}
	if threads == 2 {
		for i := range ops {
			for j := range ops {
				run([]int{i, j})
			}
		}
	} else {
		// three goroutines over the operations that executed synchronisation operations (none on a tree without sync)
		var hot []int
		for i, op := range ops {
			sw, _ := h.LoadSwagger(docJSON)
			mcrt.Reset(mcrt.Asc, nil, h.DefaultHorizon)
			an := analysis.New(sw)
			before := mcrt.Cur.SyncOps
			var o h.Outcome
			h.Guard(&o, func() { op.Run(an) })
			if mcrt.Cur.SyncOps != before {
				hot = append(hot, i)
			}
		}
		c.Count("operations_with_sync_points", int64(len(hot)))
		for _, i := range hot {
			for _, j := range hot {
				for _, k := range hot {
					run([]int{i, j, k})
				}
			}
		}
	}
}

// schedule budget of one shard for the goroutine layer (0: none): on a tree where many operations synchronise the number of
// schedules per harness explodes; the layer then covers the first documents fully and reports the cap
var (
	c16ScheduleBudget int64
	c16SchedulesRun   int64
	c16BudgetReported bool
)

// c16RacePass: free-running goroutines on one shared Spec (run only in a -race build of the worker).
func c16RacePass(c *Ctx) {
	h.FreeRunning = true
	ops := c16Ops()
	docs := c16Docs(c)
	if len(docs) > 40 {
		docs = append(docs[:2:2], docs[2:40]...)
	}
	for di, d := range docs {
		sw, err := h.LoadSwagger(d)
		if err != nil {
			continue
		}
		an := analysis.New(sw)
		var wg sync.WaitGroup
		start := make(chan struct{})
		const G = 8
		for g := 0; g < G; g++ {
			wg.Add(1)
			go func(g int) {
				defer wg.Done()
				<-start
				n := len(ops)
				for r := 0; r < 2; r++ {
					for i := 0; i < n; i++ {
						op := ops[(i*(g+1)+int(c.Seed)+g*7+di)%n]
						func() {
							defer func() { _ = recover() }()
							op.Run(an)
						}()
					}
				}
			}(g)
		}
		close(start)
		wg.Wait()
		c.Execs += int64(G * 2 * len(ops))
	}
	c.Count("race_pass_documents", int64(len(docs)))
}

func init() {
	register(&Check{ID: "C16", Run: func(c *Ctx) {
		if c.Args["mode"] == "race" {
			c16RacePass(c)
			return
		}
		ops := c16Ops()
		docs := c16Docs(c)
		c.Bounds["operations"] = len(ops)
		c.Bounds["documents"] = len(docs)
		c.Bounds["sequence_depth"] = 3
		c.Bounds["interleavings"] = "2 goroutines x 1 call: every ordered pair of operations, all schedules; 3 goroutines over the operations that execute synchronisation operations"
		c16ScheduleBudget, c16SchedulesRun, c16BudgetReported = 150000, 0, false
		if c.Thorough() {
			c16ScheduleBudget = 3000000
		}
		c.Bounds["schedule_budget_per_shard"] = c16ScheduleBudget
		for k, d := range docs {
			if !c.Mine(int64(k)) {
				continue
			}
			c.Begin(&Violation{Signature: "fatal crash of the process", Generator: "c16", Input: J{"doc": json.RawMessage(d)}, Env: J{"kind": "all"}})
			c16Sequential(c, d, ops)
			if k < 2 || c.Thorough() || k%8 == 0 {
				c16Interleavings(c, d, ops, 2)
				c16Interleavings(c, d, ops, 3)
			}
			c.Counters["schedules_explored"] = c16SchedulesRun
			c.NonTrivial++
			if k < 2 {
				c.Sample(J{"doc": json.RawMessage(d), "operations": len(ops)})
			}
			if c.Expired() {
				return
			}
		}
	}, Replay: func(v *Violation) string {
		in := v.Input.(map[string]any)
		dj := mustJSON(in["doc"])
		c := NewCtx("C16", "quick", 0, 1, "")
		c.MaxReplays = 0
		ops := c16Ops()
		if v.Env["kind"] == "all" {
			c16Sequential(c, dj, ops)
			c16Interleavings(c, dj, ops, 2)
		} else if v.Env["kind"] == "sequence" {
			// keep only the operations of the recorded sequence: the search then replays exactly that path (and its prefixes)
			var keep []qop
			for _, n := range v.Env["path"].([]any) {
				for _, op := range ops {
					if op.Name == n.(string) {
						keep = append(keep, op)
					}
				}
			}
			c16Sequential(c, dj, keep)
		} else {
			var keep []qop
			for _, n := range v.Env["ops"].([]any) {
				for _, op := range ops {
					if op.Name == n.(string) {
						keep = append(keep, op)
					}
				}
			}
			c16Interleavings(c, dj, keep, 2)
			c16Interleavings(c, dj, keep, 3)
		}
		for sig, g := range c.groups {
			if sig == v.Signature {
				return sig + ": " + g.What
			}
		}
		return ""
	}})
}

package props

import (
	"encoding/json"
	"fmt"
	"os"
	"reflect"
	"regexp"
	"sort"
	"strings"

	"github.com/go-openapi/analysis"

	"verif/mc/gen"
	"verif/mc/h"
	"verif/mc/mcrt"
	"verif/mc/oracle"
)

// ---- the Flatten family: C01-C06, C08, C10 share the bundle space G_W ----

type flatInput struct {
	B        *h.Bundle
	Spec     *gen.BundleSpec
	Labels   []string
	Classes  []string
	In       *oracle.Bundle // parsed input bundle, root in serialization normal form
	InRoot   map[string]any
	Cyclic   bool
	cyclicOK bool
}

func buildFlatInput(fs []gen.Feature, idx []int) (*flatInput, bool) {
	bs := gen.NewBundleSpec()
	for slot, i := range idx {
		fs[i].Apply(bs, slot)
	}
	files, ok := bs.Render()
	if !ok {
		return nil, false
	}
	in := &flatInput{B: &h.Bundle{Files: files, Root: gen.RootFile}, Spec: bs}
	for _, i := range idx {
		in.Labels = append(in.Labels, fs[i].Label)
		in.Classes = append(in.Classes, fs[i].Class)
	}
	in.B.Desc = in.Labels
	if !in.prepare() {
		return nil, false
	}
	return in, true
}

// prepare parses the bundle; the root is put in the serialization normal form of the spec model.
func (in *flatInput) prepare() bool {
	sw, err := h.LoadSwagger(in.B.Files[in.B.Root])
	if err != nil {
		return false
	}
	norm := h.Marshal(sw)
	in.In = &oracle.Bundle{Files: map[string]any{}}
	for f, d := range in.B.Files {
		if f == in.B.Root {
			in.In.Files[f] = h.ToJSON(norm)
		} else {
			in.In.Files[f] = h.ToJSON([]byte(d))
		}
	}
	in.InRoot, _ = in.In.Files[in.B.Root].(map[string]any)
	c, err := oracle.RefGraphCyclic(in.In, in.B.Root)
	in.Cyclic, in.cyclicOK = c, err == nil
	if in.InRoot == nil {
		return false
	}
	// clause w6 of W on the combined bundle: an auxiliary definition whose name equals (also up to letter case) the name of a
	// definition of the root or of another auxiliary document must itself be $ref-free. Two features that are each in W
	// can break it together (the same name used by one as a root definition and by the other as a recursive import):
	// such a combination is outside W and is not generated.
	type def struct {
		file string
		body any
	}
	byName := map[string][]def{}
	for f, doc := range in.In.Files {
		for name, body := range asObj(asObj(doc)["definitions"]) {
			byName[strings.ToLower(name)] = append(byName[strings.ToLower(name)], def{f, body})
		}
	}
	for _, ds := range byName {
		if len(ds) < 2 {
			continue
		}
		for _, d := range ds {
			if d.file != in.B.Root && strings.Contains(mustJSON(d.body), "\"$ref\"") {
				return false
			}
		}
	}
	return true
}

// optionSets of W for this bundle (clauses w3a, w3b, w8 of C01's quantifier).
func (in *flatInput) optionSets(filter func(o h.Opts) bool) []h.Opts {
	var out []h.Opts
	for _, mode := range []string{"minimal", "full", "expand"} {
		for _, ru := range []bool{false, true} {
			for _, keep := range []bool{false, true} {
				o := h.Opts{Minimal: mode == "minimal", Expand: mode == "expand", RemoveUnused: ru, KeepNames: keep}
				if keep && (in.Spec.HasAux() || mode == "expand") {
					continue // KeepNames: single-document bundles only
				}
				if in.Spec.HasPointer && o.Expand {
					continue // anonymous pointers belong to W under Minimal and full only
				}
				if in.Spec.HasSharedPointer && o.RemoveUnused {
					continue // pointers into shared parameters/responses only without RemoveUnused
				}
				if filter != nil && !filter(o) {
					continue
				}
				out = append(out, o)
			}
		}
	}
	return out
}

type flatRun struct {
	In   *flatInput
	Opts h.Opts
	Pol  mcrt.Policy
	Res  *h.FlattenResult
	Out  map[string]any // parsed output root
	OutB *oracle.Bundle
	// Chained: the output is the result of two calls; the marker put on new definitions by the first call may
	// legitimately have been inlined by the second one, so it is ignored wherever it appears.
	Chained bool
}

func runFlat(in *flatInput, o h.Opts, pol mcrt.Policy) *flatRun {
	r := &flatRun{In: in, Opts: o, Pol: pol}
	r.Res = h.RunFlatten(in.B, o, h.Env{Policy: pol}, nil)
	if r.Res.OK() {
		r.Out, _ = h.ToJSON(r.Res.Out).(map[string]any)
		r.OutB = &oracle.Bundle{Files: map[string]any{}}
		for f, v := range in.In.Files {
			r.OutB.Files[f] = v
		}
		r.OutB.Files[in.B.Root] = r.Out
	}
	return r
}

var reQuoted = regexp.MustCompile(`"[^"]*"|'[^']*'|/[^\s:]+|#\S+`)

// errClass normalises an error message: quoted strings, pointers and paths are abstracted.
func errClass(msg string) string {
	s := reQuoted.ReplaceAllString(msg, "_")
	s = strings.Join(strings.Fields(s), " ")
	if len(s) > 140 {
		s = s[:140]
	}
	return s
}

func nameClass(name string) string {
	switch {
	case strings.ContainsAny(name, "/~"):
		return "needs-pointer-escaping"
	case gen.EscName(name) != name:
		return "needs-url-escaping"
	}
	return "plain"
}

func (r *flatRun) newDefs() map[string]bool {
	nd := map[string]bool{}
	ind := asObj(r.In.InRoot["definitions"])
	for k := range asObj(r.Out["definitions"]) {
		if _, ok := ind[k]; !ok {
			nd[k] = true
		}
	}
	return nd
}

func (r *flatRun) eqOpts() *oracle.EqOpts {
	nd := r.newDefs()
	root := r.In.B.Root
	return &oracle.EqOpts{IgnoreKeyRight: func(n oracle.Node, key string) bool {
		if key != "x-go-gen-location" || n.File != root {
			return false
		}
		if r.Chained {
			return true
		}
		parts := strings.Split(n.Ptr, "\x00")
		return len(parts) == 3 && parts[1] == "definitions" && nd[parts[2]]
	}}
}

// ---- oracles; each returns (signature, what) or "" ----

func oracleC04(r *flatRun) (string, string) {
	switch {
	case r.Res.Horizon:
		return "Flatten diverges on a well-formed bundle (" + r.Opts.String() + ")", fmt.Sprintf("step horizon exceeded at site %d", r.Res.HorizonSite)
	case r.Res.Panic != "":
		return "Flatten panics on a well-formed bundle at " + r.Res.PanicFrame, r.Res.Panic
	case r.Res.Err != "":
		return "Flatten rejects a well-formed bundle: " + errClass(r.Res.Err), r.Res.Err
	}
	return "", ""
}

func oracleC01(r *flatRun) (string, string) {
	if !r.Res.OK() {
		return "", ""
	}
	eo := r.eqOpts()
	inRoot, outRoot := r.In.In.Root(r.In.B.Root), r.OutB.Root(r.In.B.Root)
	at := func(n oracle.Node, k string) oracle.Node {
		v := asObj(n.Val)[k]
		return oracle.Node{B: n.B, File: n.File, Ptr: n.Ptr + "\x00" + k, Val: v}
	}
	// every top-level key other than definitions (and parameters/responses with RemoveUnused) is unchanged
	for _, k := range h.SortedKeys(r.In.InRoot) {
		if k == "definitions" || (r.Opts.RemoveUnused && (k == "parameters" || k == "responses")) {
			continue
		}
		if _, ok := r.Out[k]; !ok {
			return "top-level section dropped: " + sectionClass(k), k
		}
		if oracle.IsOpaqueKey(k) {
			// vendor extensions are free-form data: unchanged literally, "$ref" members in there are not references
			if d := oracle.LiteralDiff(r.In.InRoot[k], r.Out[k], "/"+k); d != "" {
				return "extension changed: " + diffClass(d), d
			}
			continue
		}
		if d := oracle.Diff(at(inRoot, k), at(outRoot, k), eo); d != "" {
			return "meaning changed under " + sectionClass(k) + ": " + diffClass(d), d
		}
	}
	for _, k := range h.SortedKeys(r.Out) {
		if _, ok := r.In.InRoot[k]; !ok && k != "definitions" {
			if m, isObj := r.Out[k].(map[string]any); isObj && len(m) == 0 {
				continue
			}
			return "top-level section added: " + sectionClass(k), k
		}
	}
	// pre-existing definitions keep their name and meaning
	ind, outd := asObj(r.In.InRoot["definitions"]), asObj(r.Out["definitions"])
	for _, name := range h.SortedKeys(ind) {
		if _, ok := outd[name]; !ok {
			if r.Opts.RemoveUnused {
				continue // judged by the resolvability of every remaining $ref (above) and by C06
			}
			return "pre-existing definition removed (name " + nameClass(name) + ")", name
		}
		din, _ := r.In.In.At(r.In.B.Root, []string{"definitions", name})
		dout, _ := r.OutB.At(r.In.B.Root, []string{"definitions", name})
		if d := oracle.Diff(din, dout, eo); d != "" {
			return "pre-existing definition changed meaning: " + diffClass(d), name + ": " + d
		}
	}
	// x-go-gen-location only on new definitions
	nd := r.newDefs()
	var found string
	var scan func(v any, toks []string)
	scan = func(v any, toks []string) {
		switch t := v.(type) {
		case map[string]any:
			if _, ok := t["x-go-gen-location"]; ok && !(len(toks) == 2 && toks[0] == "definitions" && nd[toks[1]]) && found == "" {
				found = "/" + strings.Join(toks, "/")
			}
			for _, k := range h.SortedKeys(t) {
				scan(t[k], append(toks, k))
			}
		case []any:
			for i, e := range t {
				scan(e, append(toks, fmt.Sprint(i)))
			}
		}
	}
	scan(r.Out, nil)
	if found != "" && !inputHasMarker(r.In.InRoot) && !r.Chained {
		return "x-go-gen-location marker outside a new definition", found
	}
	return "", ""
}

func inputHasMarker(v any) bool { return strings.Contains(mustJSON(v), "x-go-gen-location") }

func sectionClass(k string) string {
	if strings.HasPrefix(k, "x-") {
		return "extension"
	}
	return k
}

var reDiffPath = regexp.MustCompile(`^[^:]*: `)

// diffClass abstracts a difference explanation: keeps the kind of difference, drops the position.
func diffClass(d string) string {
	s := reDiffPath.ReplaceAllString(d, "")
	s = reQuoted.ReplaceAllString(s, "_")
	if len(s) > 100 {
		s = s[:100]
	}
	return s
}

func oracleC02(r *flatRun) (string, string) {
	if !r.Res.OK() || r.Opts.Expand {
		return "", ""
	}
	w := oracle.WalkDoc(r.Out)
	for _, ref := range w.Refs {
		if ref.Kind != "schema" {
			return "$ref left in a " + ref.Kind, fmt.Sprintf("/%s: %s", strings.Join(ref.Tokens, "/"), ref.Ref)
		}
	}
	return checkCanonicalRefs(r.Out)
}

// checkCanonicalRefs: every $ref anywhere in the document is '#/definitions/<name>' with <name> present.
func checkCanonicalRefs(out map[string]any) (string, string) {
	defs := asObj(out["definitions"])
	var occ []oracle.RefOccurrence
	oracle.ScanRefs(out, nil, &occ)
	for _, o := range occ {
		where := fmt.Sprintf("/%s: %s", strings.Join(o.Tokens, "/"), o.Ref)
		if !strings.HasPrefix(o.Ref, "#/definitions/") {
			kind := "another document"
			if strings.HasPrefix(o.Ref, "#") {
				kind = "an anonymous JSON pointer"
			}
			return "$ref to " + kind + " left", where
		}
		toks, ok := oracle.PointerTokens(o.Ref, true)
		if !ok || len(toks) != 2 {
			if ok && len(toks) > 2 {
				return "$ref to an anonymous JSON pointer left", where
			}
			return "$ref not of the form #/definitions/<name>", where
		}
		if _, exists := defs[toks[1]]; !exists {
			return "$ref to a definition that does not exist (name " + nameClass(toks[1]) + ")", where
		}
	}
	return "", ""
}

func isComplexJSON(s map[string]any) bool {
	if len(asObj(s["properties"])) > 0 || len(asArr(s["allOf"])) > 0 {
		return true
	}
	_, tuple := s["items"].([]any)
	return tuple
}

func oracleC03(r *flatRun) (string, string) {
	if !r.Res.OK() || r.Opts.Expand || r.Opts.Minimal {
		return "", ""
	}
	w := oracle.WalkDoc(r.Out)
	for _, s := range w.Schemas {
		if s.TopLevel {
			continue
		}
		if m := asObj(s.Value); m != nil && isComplexJSON(m) {
			cls := holderClass(s.Tokens)
			if clash := opKeyClash(r.Out, s.Tokens); clash != "" {
				cls = "an operation without operationId whose generated key (method + path) equals that of " + clash
			}
			return "complex schema left inline under " + cls, "/" + strings.Join(s.Tokens, "/") + ": " + mustJSON(s.Value)
		}
	}
	nd := r.newDefs()
	lower := map[string]string{}
	for name := range asObj(r.Out["definitions"]) {
		l := strings.ToLower(name)
		if other, dup := lower[l]; dup && (nd[name] || nd[other]) {
			return "created definition name equals an existing name up to case", name + " / " + other
		}
		lower[l] = name
	}
	ind := asObj(r.In.InRoot["definitions"])
	for _, name := range h.SortedKeys(ind) {
		if _, ok := asObj(r.Out["definitions"])[name]; !ok {
			continue
		}
		din, _ := r.In.In.At(r.In.B.Root, []string{"definitions", name})
		dout, _ := r.OutB.At(r.In.B.Root, []string{"definitions", name})
		if d := oracle.Diff(din, dout, r.eqOpts()); d != "" {
			return "existing definition overwritten", name + ": " + d
		}
	}
	return "", ""
}

func holderClass(toks []string) string {
	if len(toks) == 0 {
		return "?"
	}
	switch toks[0] {
	case "definitions":
		return "definitions/.../" + toks[len(toks)-1]
	case "paths":
		for _, t := range toks {
			if t == "parameters" || t == "responses" {
				return "paths/" + t
			}
		}
	}
	return toks[0]
}

func oracleC05(r *flatRun) (string, string) {
	if !r.Res.OK() || !r.Opts.Expand {
		return "", ""
	}
	if s, w := checkCanonicalRefs(r.Out); s != "" {
		return s, w
	}
	if s, w := oracleC01(r); s != "" {
		return "C01: " + s, w
	}
	if r.In.cyclicOK && !r.In.Cyclic {
		var occ []oracle.RefOccurrence
		oracle.ScanRefs(r.Out, nil, &occ)
		if len(occ) > 0 {
			return "$ref left although the bundle has no reference cycle", fmt.Sprintf("/%s: %s", strings.Join(occ[0].Tokens, "/"), occ[0].Ref)
		}
		if nd := r.newDefs(); len(nd) > 0 {
			return "Expand created definitions although the bundle has no reference cycle", fmt.Sprint(nd)
		}
	}
	return "", ""
}

func oracleC06(r *flatRun) (string, string) {
	if !r.Res.OK() || !r.Opts.RemoveUnused {
		return "", ""
	}
	for _, sec := range []string{"parameters", "responses"} {
		if m := asObj(r.Out[sec]); len(m) > 0 {
			return "shared " + sec + " left after RemoveUnused", mustJSON(m)
		}
	}
	var occ []oracle.RefOccurrence
	oracle.ScanRefs(r.Out, nil, &occ)
	referred := map[string]bool{}
	defs := asObj(r.Out["definitions"])
	for _, o := range occ {
		toks, ok := oracle.PointerTokens(o.Ref, true)
		if ok && len(toks) >= 2 && toks[0] == "definitions" {
			referred[toks[1]] = true
			if _, exists := defs[toks[1]]; !exists {
				return "dangling $ref after RemoveUnused: referenced definition removed (name " + nameClass(toks[1]) + ")", fmt.Sprintf("/%s: %s", strings.Join(o.Tokens, "/"), o.Ref)
			}
		}
	}
	for _, name := range h.SortedKeys(defs) {
		if !referred[name] {
			return "unreferenced definition left after RemoveUnused (name " + nameClass(name) + ")", name
		}
	}
	// the operations still mean the same
	eo := r.eqOpts()
	pin, _ := r.In.In.At(r.In.B.Root, []string{"paths"})
	pout, _ := r.OutB.At(r.In.B.Root, []string{"paths"})
	if d := oracle.Diff(pin, pout, eo); d != "" {
		return "operations changed meaning after RemoveUnused: " + diffClass(d), d
	}
	return "", ""
}

func oracleC08(r *flatRun) (string, string) {
	if !r.Res.OK() || r.Opts.Expand {
		return "", ""
	}
	b2 := &h.Bundle{Files: map[string]string{}, Root: r.In.B.Root}
	for f, d := range r.In.B.Files {
		b2.Files[f] = d
	}
	b2.Files[b2.Root] = string(r.Res.Out)
	res2 := h.RunFlatten(b2, r.Opts, h.Env{Policy: r.Pol}, nil)
	if !res2.OK() {
		return "second Flatten fails: " + res2.Class() + " " + errClass(res2.Err+res2.Panic), res2.Err + res2.Panic
	}
	if string(res2.Out) != string(r.Res.Out) {
		d := oracle.Diff(r.OutB.Root(r.In.B.Root), (&oracle.Bundle{Files: map[string]any{r.In.B.Root: h.ToJSON(res2.Out)}}).Root(r.In.B.Root), nil)
		return "second Flatten changes the document", "first difference: " + d + "\nafter first: " + string(r.Res.Out) + "\nafter second: " + string(res2.Out)
	}
	// the same second call, but on the live objects of the first one (same document object, same analyzed Spec)
	if r.Res.Analyzed != nil && r.Res.Doc != nil {
		res3 := h.ReFlatten(r.Res, r.In.B, r.Opts, h.Env{Policy: r.Pol})
		if !res3.OK() {
			return "second Flatten on the same analyzer fails: " + res3.Class() + " " + errClass(res3.Err+res3.Panic), res3.Err + res3.Panic
		}
		if string(res3.Out) != string(r.Res.Out) {
			return "second Flatten on the same analyzer changes the document", "after first: " + string(r.Res.Out) + "\nafter second: " + string(res3.Out)
		}
	}
	return "", ""
}

// getterSnapshot renders every public query of an analyzed Spec canonically.
func getterSnapshot(an *analysis.Spec) map[string]string {
	snap := map[string]string{}
	ms := func(name string, l []string) { snap[name] = strings.Join(sortedCopy(l), "\n") }
	ms("AllReferences", an.AllReferences())
	ms("AllDefinitionReferences", an.AllDefinitionReferences())
	ms("AllParameterReferences", an.AllParameterReferences())
	ms("AllResponseReferences", an.AllResponseReferences())
	ms("AllPathItemReferences", an.AllPathItemReferences())
	ms("AllItemsReferences", an.AllItemsReferences())
	var refs []string
	for _, r := range an.AllRefs() {
		refs = append(refs, r.String())
	}
	ms("AllRefs", refs)
	var defs, allofs []string
	for _, d := range an.AllDefinitions() {
		defs = append(defs, fmt.Sprintf("%s|%s|%v|%s", d.Ref.String(), d.Name, d.TopLevel, h.Marshal(d.Schema)))
	}
	ms("AllDefinitions", defs)
	for _, d := range an.SchemasWithAllOf() {
		allofs = append(allofs, fmt.Sprintf("%s|%s|%v|%s", d.Ref.String(), d.Name, d.TopLevel, h.Marshal(d.Schema)))
	}
	ms("SchemasWithAllOf", allofs)
	mm := func(name string, m map[string]string) {
		var l []string
		for k, v := range m {
			l = append(l, k+"="+v)
		}
		ms(name, l)
	}
	me := func(name string, m map[string][]interface{}) {
		var l []string
		for k, v := range m {
			l = append(l, k+"="+mustJSON(v))
		}
		ms(name, l)
	}
	mm("ParameterPatterns", an.ParameterPatterns())
	mm("HeaderPatterns", an.HeaderPatterns())
	mm("ItemsPatterns", an.ItemsPatterns())
	mm("SchemaPatterns", an.SchemaPatterns())
	mm("AllPatterns", an.AllPatterns())
	me("ParameterEnums", an.ParameterEnums())
	me("HeaderEnums", an.HeaderEnums())
	me("ItemsEnums", an.ItemsEnums())
	me("SchemaEnums", an.SchemaEnums())
	me("AllEnums", an.AllEnums())
	var ops []string
	for m, byPath := range an.Operations() {
		for p, op := range byPath {
			ops = append(ops, m+" "+p+" "+string(h.Marshal(op)))
			ms("ConsumesFor "+m+" "+p, an.ConsumesFor(op))
			ms("ProducesFor "+m+" "+p, an.ProducesFor(op))
			snap["SecurityRequirementsFor "+m+" "+p] = fmt.Sprint(normReqs(an.SecurityRequirementsFor(op)))
			snap["ParamsFor "+m+" "+p] = func() (s string) {
				defer func() {
					if r := recover(); r != nil {
						s = "panic"
					}
				}()
				var l []string
				for k, v := range an.ParamsFor(m, p) {
					l = append(l, k+"="+string(h.Marshal(v)))
				}
				sort.Strings(l)
				return strings.Join(l, "\n")
			}()
		}
	}
	ms("Operations", ops)
	ms("OperationIDs", an.OperationIDs())
	ms("OperationMethodPaths", an.OperationMethodPaths())
	ms("RequiredConsumes", an.RequiredConsumes())
	ms("RequiredProduces", an.RequiredProduces())
	ms("RequiredSecuritySchemes", an.RequiredSecuritySchemes())
	var paths []string
	for p, pi := range an.AllPaths() {
		paths = append(paths, p+" "+string(h.Marshal(pi)))
	}
	ms("AllPaths", paths)
	return snap
}

func oracleC10(r *flatRun) (string, string) {
	if !r.Res.OK() {
		return "", ""
	}
	var sig, what string
	var o h.Outcome
	h.Guard(&o, func() {
		got := getterSnapshot(r.Res.Analyzed)
		want := getterSnapshot(analysis.New(r.Res.Doc))
		var keys []string
		for k := range want {
			keys = append(keys, k)
		}
		for k := range got {
			if _, ok := want[k]; !ok {
				keys = append(keys, k)
			}
		}
		sort.Strings(keys)
		for _, k := range keys {
			if got[k] != want[k] {
				sig = "stale analyzer after Flatten (" + r.Opts.String() + "): " + strings.Fields(k)[0]
				what = fmt.Sprintf("%s: passed-in Spec answers\n%s\nfresh analysis answers\n%s", k, got[k], want[k])
				return
			}
		}
	})
	if o.Crashed() {
		return "crash while querying the analyzer after Flatten at " + o.PanicFrame, o.Panic
	}
	return sig, what
}

type flatProp struct {
	ID      string
	Filter  func(o h.Opts) bool
	Oracles []func(r *flatRun) (string, string)
	// PairOracle compares the runs of one (input, options) under the two policies.
	PairOracle func(a, b *flatRun) (string, string)
}

var flatProps = map[string]*flatProp{
	"C01": {ID: "C01", Oracles: []func(*flatRun) (string, string){oracleC01}},
	"C02": {ID: "C02", Filter: func(o h.Opts) bool { return !o.Expand }, Oracles: []func(*flatRun) (string, string){oracleC02}},
	"C03": {ID: "C03", Filter: func(o h.Opts) bool { return !o.Expand && !o.Minimal }, Oracles: []func(*flatRun) (string, string){oracleC03}},
	"C04": {ID: "C04", Oracles: []func(*flatRun) (string, string){oracleC04}},
	"C05": {ID: "C05", Filter: func(o h.Opts) bool { return o.Expand }, Oracles: []func(*flatRun) (string, string){oracleC05},
		PairOracle: func(a, b *flatRun) (string, string) {
			if a.Res.OK() && b.Res.OK() && a.In.cyclicOK && !a.In.Cyclic && string(a.Res.Out) != string(b.Res.Out) {
				return "Expand output of an acyclic bundle is not reproducible across map orders", string(a.Res.Out) + "\nvs\n" + string(b.Res.Out)
			}
			return "", ""
		}},
	"C06": {ID: "C06", Filter: func(o h.Opts) bool { return o.RemoveUnused }, Oracles: []func(*flatRun) (string, string){oracleC06}},
	"C08": {ID: "C08", Filter: func(o h.Opts) bool { return !o.Expand }, Oracles: []func(*flatRun) (string, string){oracleC08}},
	"C10": {ID: "C10", Oracles: []func(*flatRun) (string, string){oracleC10}},
}

func flatCatalogues(c *Ctx) (singles, pairs []gen.Feature) {
	three := []string{"pet", "pet owner", "a/b"}
	sweepHolders := map[string]bool{"defBody": true, "prop": true, "opBody": true}
	// contents instantiated with a name of the alphabet: refLocal[n], refAux[n], defWithInline[n], selfRecursiveAuxNamed[n], pointerToNamedProperty[n,...]
	named := func(ct gen.Content) bool {
		for _, n := range gen.Sigma {
			if n == "pet" || n == "pet owner" || n == "a/b" {
				continue
			}
			if strings.Contains(ct.Label, "["+n+"]") || strings.Contains(ct.Label, "["+n+",") {
				return true
			}
		}
		return false
	}
	if c.Thorough() {
		// singles: every holder x every content with every name of the alphabet + all other features
		singles = append(gen.Catalogue(gen.Sigma, nil, nil), gen.OtherFeatures(gen.Sigma)...)
		// pairs: 6 holders x the contents of every class (3 names; pointer targets over 3 sub-schema kinds x 4 target kinds)
		// + other features (core names)
		rep := map[string]bool{"prop": true, "additionalItems": true, "allOfMember": true, "opBody": true, "pathBody": true, "sharedResponse": true}
		pairs = append(gen.Catalogue(three, func(hn string) bool { return rep[hn] }, func(ct gen.Content) bool {
			if strings.HasPrefix(ct.Label, "pointer[") {
				okKind := strings.Contains(ct.Label, "[properties,") || strings.Contains(ct.Label, "[items,") || strings.Contains(ct.Label, "[allOf0,")
				okTarget := strings.HasSuffix(ct.Label, ",simple]") || strings.HasSuffix(ct.Label, ",complex]") || strings.HasSuffix(ct.Label, ",refAuxCollide]") || strings.HasSuffix(ct.Label, ",arrayOfRef]")
				return okKind && okTarget
			}
			return true
		}), gen.OtherFeatures(gen.SigmaCore)...)
		return
	}
	// quick singles: every holder x every content (3 names), the whole alphabet on 3 holders, all other features
	// (pairs of names equal up to a special character: on the 3 sweep holders; in pairs with other features: '#' and '/' only)
	nearNames := func(ct gen.Content) bool {
		return ct.Class == "ref-aux-names" || ct.Class == "ref-local-names" || ct.Class == "inline-names"
	}
	containerPtr := func(ct gen.Content) bool { return ct.Class == "pointer-container" }
	ptrHolders := map[string]bool{"prop": true, "opBody": true, "codeResponse": true, "sharedResponse": true}
	singles = gen.Catalogue(three, nil, func(ct gen.Content) bool { return !nearNames(ct) && !containerPtr(ct) })
	singles = append(singles, gen.Catalogue(three, func(hn string) bool { return ptrHolders[hn] }, containerPtr)...)
	singles = append(singles, gen.Catalogue(three, func(hn string) bool { return sweepHolders[hn] }, nearNames)...)
	rest := gen.Sigma[:0:0]
	for _, n := range gen.Sigma {
		if n != "pet" && n != "pet owner" && n != "a/b" {
			rest = append(rest, n)
		}
	}
	singles = append(singles, gen.Catalogue(rest, func(hn string) bool { return sweepHolders[hn] }, named)...)
	singles = append(singles, gen.OtherFeatures(gen.Sigma)...)
	// quick pairs: a core of 3 holders x 15 contents (collisions, pointers, recursion, imports) + 8 other features
	rep := map[string]bool{"prop": true, "opBody": true, "sharedResponse": true, "optionsResponse": true}
	repContent := map[string]bool{"object": true, "richObject": true, "refAuxRich": true, "refLocal[pet owner]": true, "refAux[pet]": true, "selfRecursiveAux": true, "arrayOfItself": true,
		"pointer[properties,complex]": true, "pointer[items,simple]": true, "pointer[properties,refAuxCollide]": true, "pointerNestedInTarget": true,
		"collidingImport[sameName]": true, "collidingImport[sameNameSimple]": true, "collidingImport[twoAtOnce]": true, "twoImportsCaseDifferent": true,
		"selfRecursiveAuxColliding[simple]": true, "auxDiamondColliding[recursive]": true, "auxDiamondAcrossFiles": true, "refAuxSameNameDifferentDirs": true, "refViaPrefixNamed[local]": true, "selfRecursiveAuxFileNamedLikeRoot": true, "collidingImport[threeAtOnce,complex]": true, "keywordNamedProperty[definitions]": true}
	pairs = gen.Catalogue(three, func(hn string) bool { return rep[hn] }, func(ct gen.Content) bool { return repContent[ct.Label] })
	repOther := map[string]bool{"twoPathsManglingAlike": true, "pathPrefixOfAnother": true, "twoCollidingImportsSameGeneratedName": true, "twoInlineSameGeneratedName": true, "paramRef": true, "responseRef": true, "pathItemRef": true, "pathItemRefWithAuxSchema": true, "paramRefWithAuxSchema": true, "twoDefsCaseDifferentWithInline": true, "unusedAliasOfCollidingImport": true, "aliasOfNestedCollidingImport": true, "collidingImportWhosePointerNameCollides": true, "aliasOfCollidingImportManyReferrers": true, "unusedChain2": true, "secondPath": true, "unusedDefinition[a/b]": true, "unusedChain3": true,
		"preNamed[thingOAIGen]": true, "preNamed[getPOKBody]": true}
	for _, f := range gen.OtherFeatures(three) {
		if repOther[f.Label] {
			pairs = append(pairs, f)
		}
	}
	return
}

// setPreFlatten: a caller may have queried the analyzer before handing it to Flatten; an answer memoised by the analyzer
// must neither survive the rewrite (C10) nor feed a later phase of Flatten with stale data (all other properties).
// C10 issues every query before every Flatten; the other properties do so in the executions run under the descending
// map-order policy and not in those run under the ascending one, so that both call histories are explored.
func setPreFlatten(fp *flatProp) {
	always := fp.ID == "C10"
	h.PreFlatten = func(an *analysis.Spec) {
		if !always && mcrt.Cur.Policy != mcrt.Desc {
			return
		}
		defer func() { _ = recover() }()
		getterSnapshot(an)
	}
}

func runFlatProp(c *Ctx, fp *flatProp) {
	setPreFlatten(fp)
	singles, pairs := flatCatalogues(c)
	c.Bounds["catalogue_singles"] = len(singles)
	c.Bounds["catalogue_pairs"] = len(pairs)
	c.Bounds["features_per_bundle"] = 2
	c.Bounds["map_order_policies"] = 2
	var k int64
	execOne := func(fs []gen.Feature, idx []int) bool {
		k++
		if !c.Mine(k - 1) {
			return true
		}
		in, ok := buildFlatInput(fs, idx)
		if !ok {
			c.Count("conflicting_or_unloadable_combinations_skipped", 1)
			return true
		}
		nt := false
		for _, o := range in.optionSets(fp.Filter) {
			c.ChoicePoints += int64(len(idx)) + 2 // which features, which option set, which map order
			var runs []*flatRun
			for _, pol := range []mcrt.Policy{mcrt.Asc, mcrt.Desc} {
				c.Begin(&Violation{Signature: "fatal crash of the process", Generator: "flatten", Input: in.B, Env: J{"policy": int(pol), "opts": o}})
				r := runFlat(in, o, pol)
				runs = append(runs, r)
				c.Execs++
				c.Outcome(r.Res.Hash())
				if r.Res.OK() && string(r.Res.Out) != mustJSON(in.InRoot) {
					nt = true
				}
				for _, orc := range fp.Oracles {
					c.Validated++
					if sig, what := orc(r); sig != "" {
						c.Violate(&Violation{Signature: sig, What: what, Generator: "flatten", Input: in.B, Env: J{"policy": int(pol), "opts": o},
							Observed: J{"class": r.Res.Class(), "err": r.Res.Err, "panic": r.Res.Panic, "out": json.RawMessage(orEmpty(r.Res.Out))}})
						break
					}
				}
			}
			if fp.PairOracle != nil {
				if sig, what := fp.PairOracle(runs[0], runs[1]); sig != "" {
					c.Violate(&Violation{Signature: sig, What: what, Generator: "flatten", Input: in.B, Env: J{"policy": 0, "opts": o, "pair": true}})
				}
			}
		}
		if nt {
			c.NonTrivial++
			if len(idx) == 2 {
				c.Sample(J{"features": in.Labels, "files": in.B.Files})
			}
		}
		return !c.Expired()
	}
	subsets(len(singles), 1, func(idx []int) bool { return execOne(singles, idx) })
	if fp.ID == "C01" {
		// chained calls Flatten(o1); Flatten(o2): the documents reached by a first call are start states of a second
		// one (every option pair); the reference is always the original bundle.
		chainFrom := pairs
		if c.Thorough() {
			chainFrom = singles
		}
		for i := range chainFrom {
			k++
			if !c.Mine(k - 1) {
				continue
			}
			in, ok := buildFlatInput(chainFrom, []int{i})
			if !ok {
				continue
			}
			for _, o1 := range in.optionSets(nil) {
				r1 := runFlat(in, o1, mcrt.Asc)
				c.Execs++
				if !r1.Res.OK() {
					continue
				}
				mid := &flatInput{B: &h.Bundle{Files: map[string]string{}, Root: in.B.Root, Desc: in.Labels}, Spec: specTraits(in.B), Labels: in.Labels}
				for f, d := range in.B.Files {
					mid.B.Files[f] = d
				}
				mid.B.Files[in.B.Root] = string(r1.Res.Out)
				if !mid.prepare() {
					continue
				}
				for _, o2 := range mid.optionSets(nil) {
					if o1.RemoveUnused != o2.RemoveUnused && !o2.RemoveUnused {
						// fine: a later call without RemoveUnused; kept
					}
					c.Begin(&Violation{Signature: "fatal crash of the process", Generator: "flatten", Input: mid.B, Env: J{"policy": 0, "opts": o2}})
					r2 := runFlat(mid, o2, mcrt.Asc)
					c.Execs++
					c.Validated++
					c.Outcome(r2.Res.Hash())
					c.ChoicePoints += 3
					if !r2.Res.OK() {
						continue // judged by C04/C08
					}
					// compare the second output with the ORIGINAL bundle
					cmp := &flatRun{In: in, Opts: h.Opts{RemoveUnused: o1.RemoveUnused || o2.RemoveUnused}, Pol: mcrt.Asc, Res: r2.Res, Out: r2.Out, Chained: true}
					cmp.OutB = &oracle.Bundle{Files: map[string]any{}}
					for f, v := range in.In.Files {
						cmp.OutB.Files[f] = v
					}
					cmp.OutB.Files[in.B.Root] = r2.Out
					if sig, what := oracleC01(cmp); sig != "" {
						c.Violate(&Violation{Signature: "after chained calls " + modeOf(o1) + " then " + modeOf(o2) + ": " + sig, What: fmt.Sprintf("Flatten(%s) then Flatten(%s): %s", o1, o2, what),
							Generator: "flatten-chain", Input: in.B, Env: J{"policy": 0, "opts": o1, "opts2": o2}})
					}
				}
			}
			if c.Expired() {
				return
			}
		}
	}
	if fp.ID == "C04" {
		conformLoaderSeam(c, singles)
	}
	subsets(len(pairs), 2, func(idx []int) bool {
		if len(idx) < 2 {
			return true // singles are covered by the full catalogue above
		}
		return execOne(pairs, idx)
	})
}

func orEmpty(b []byte) []byte {
	if len(b) == 0 {
		return []byte("null")
	}
	return b
}

func flatReplay(fp *flatProp) func(v *Violation) string {
	return func(v *Violation) string {
		b, _ := json.Marshal(v.Input)
		var bundle h.Bundle
		if err := json.Unmarshal(b, &bundle); err != nil {
			return ""
		}
		ob, _ := json.Marshal(v.Env["opts"])
		var o h.Opts
		_ = json.Unmarshal(ob, &o)
		pol := mcrt.Asc
		if p, ok := v.Env["policy"].(float64); ok {
			pol = mcrt.Policy(int(p))
		}
		in := &flatInput{B: &bundle, Spec: specTraits(&bundle)}
		if !in.prepare() {
			return ""
		}
		setPreFlatten(fp)
		if v.Generator == "flatten-chain" {
			ob2, _ := json.Marshal(v.Env["opts2"])
			var o2 h.Opts
			_ = json.Unmarshal(ob2, &o2)
			r1 := runFlat(in, o, mcrt.Asc)
			if !r1.Res.OK() {
				return ""
			}
			mid := &flatInput{B: &h.Bundle{Files: map[string]string{}, Root: in.B.Root}, Spec: specTraits(in.B)}
			for f, d := range in.B.Files {
				mid.B.Files[f] = d
			}
			mid.B.Files[in.B.Root] = string(r1.Res.Out)
			if !mid.prepare() {
				return ""
			}
			r2 := runFlat(mid, o2, mcrt.Asc)
			if !r2.Res.OK() {
				return ""
			}
			cmp := &flatRun{In: in, Opts: h.Opts{RemoveUnused: o.RemoveUnused || o2.RemoveUnused}, Pol: mcrt.Asc, Res: r2.Res, Out: r2.Out, OutB: &oracle.Bundle{Files: map[string]any{}}, Chained: true}
			for f, vv := range in.In.Files {
				cmp.OutB.Files[f] = vv
			}
			cmp.OutB.Files[in.B.Root] = r2.Out
			if sig, what := oracleC01(cmp); sig != "" {
				return sig + ": " + what
			}
			return ""
		}
		r := runFlat(in, o, pol)
		for _, orc := range fp.Oracles {
			if sig, what := orc(r); sig != "" {
				return sig + ": " + what
			}
		}
		if fp.PairOracle != nil {
			other := mcrt.Desc
			if pol == mcrt.Desc {
				other = mcrt.Asc
			}
			if sig, what := fp.PairOracle(r, runFlat(in, o, other)); sig != "" {
				return sig + ": " + what
			}
		}
		return ""
	}
}

// specTraits rebuilds the traits of a replayed bundle (only what the oracles need).
func specTraits(b *h.Bundle) *gen.BundleSpec {
	bs := &gen.BundleSpec{Plants: map[string][]gen.Plant{}}
	for f := range b.Files {
		bs.Plants[f] = nil
	}
	return bs
}

var _ = reflect.DeepEqual

func init() {
	for id, fp := range flatProps {
		fp := fp
		register(&Check{ID: id, Run: func(c *Ctx) { runFlatProp(c, fp) }, Replay: flatReplay(fp)})
	}
}

// conformLoaderSeam validates the in-memory loader against spec's default loader: every single-feature bundle
// with auxiliary documents is also written to a real directory and flattened from there; results must be identical.
func conformLoaderSeam(c *Ctx, fs []gen.Feature) {
	var n, mism int64
	for i := range fs {
		if int(int64(i)%int64(c.NShards)) != c.Shard {
			continue
		}
		in, ok := buildFlatInput(fs, []int{i})
		if !ok || !in.Spec.HasAux() {
			continue
		}
		if !c.Thorough() && n >= 12 {
			break
		}
		for _, o := range in.optionSets(func(o h.Opts) bool { return !o.RemoveUnused }) {
			dir, err := os.MkdirTemp("", "mc-disk-")
			if err != nil {
				return
			}
			disk, err := h.RunFlattenOnDisk(in.B, o, dir)
			os.RemoveAll(dir)
			if err != nil {
				continue
			}
			mem := runFlat(in, o, mcrt.Asc)
			n++
			if disk.Class() != mem.Res.Class() || (disk.OK() && string(disk.Out) != string(mem.Res.Out)) {
				mism++
				c.Notes = append(c.Notes, fmt.Sprintf("loader seam mismatch on %v %s: disk %s vs memory %s", in.Labels, o, disk.Class()+" "+disk.Err, mem.Res.Class()+" "+mem.Res.Err))
			}
		}
	}
	c.Count("loader_seam_conformance_runs", n)
	c.Count("loader_seam_conformance_mismatches", mism)
}

// Show is a debugging aid: builds the bundle made of the given feature labels and prints, for every option
// set of W, the outcome and the verdict of the property's oracles.
func Show(prop string, labels []string) {
	c := NewCtx(prop, "thorough", 0, 1, "")
	singles, _ := flatCatalogues(c)
	var idx []int
	for _, l := range labels {
		for i, f := range singles {
			if f.Label == l {
				idx = append(idx, i)
			}
		}
	}
	in, ok := buildFlatInput(singles, idx)
	if !ok {
		fmt.Println("cannot build", labels)
		return
	}
	for f, d := range in.B.Files {
		fmt.Println(f, d)
	}
	fp := flatProps[prop]
	for _, o := range in.optionSets(fp.Filter) {
		for _, pol := range []mcrt.Policy{mcrt.Asc, mcrt.Desc} {
			r := runFlat(in, o, pol)
			fmt.Printf("%s pol=%d: %s %s\n", o, pol, r.Res.Class(), r.Res.Err+r.Res.Panic)
			for _, orc := range fp.Oracles {
				if sig, what := orc(r); sig != "" {
					fmt.Printf("   VIOLATION %s: %.300s\n   out: %s\n", sig, what, r.Res.Out)
				}
			}
		}
	}
}

// opKeyClash: for a schema position under paths/<path>/<method>, tells whether the operation has no operationId
// and another id-less operation has the same Go-ified "method path" key (the name generated names are built from).
func opKeyClash(out map[string]any, toks []string) string {
	if len(toks) < 3 || toks[0] != "paths" {
		return ""
	}
	norm := func(method, p string) string {
		var sb strings.Builder
		sb.WriteString(strings.ToLower(method))
		for _, r := range strings.ToLower(p) {
			if (r >= 'a' && r <= 'z') || (r >= '0' && r <= '9') {
				sb.WriteRune(r)
			}
		}
		return sb.String()
	}
	paths := asObj(out["paths"])
	me := asObj(asObj(paths[toks[1]])[toks[2]])
	if me == nil || me["operationId"] != nil {
		return ""
	}
	for _, p := range h.SortedKeys(paths) {
		for _, m := range methods7 {
			op := asObj(asObj(paths[p])[m])
			if op == nil || (p == toks[1] && m == toks[2]) || op["operationId"] != nil {
				continue
			}
			if norm(m, p) == norm(toks[2], toks[1]) {
				return "another operation"
			}
		}
	}
	return ""
}

package props

import "hash/fnv"

func hashStr(s string) uint64 {
	f := fnv.New64a()
	f.Write([]byte(s))
	return f.Sum64()
}

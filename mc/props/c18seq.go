package props

import (
	"encoding/json"
	"fmt"
	"strings"

	"github.com/go-openapi/analysis"
	"github.com/go-openapi/spec"

	"verif/mc/h"
	"verif/mc/mcrt"
)

// ---- C18, second part: explicit-state search over call/edit sequences on ONE live primary ----
//
// The uniqueness rule holds for every Mixin call, also when the primary object was mixed into before and edited in
// between. Transitions: mix(M1), mix(M2) (fresh copies), addop (an operation with a new id added to an existing path of
// the primary: the number of paths does not change), swap (one path of the primary replaced by another one carrying a
// new id: the number of paths does not change), reload. After every mix: ids pairwise distinct, an id of the mixin
// changed only if it was taken in the primary just before the call, and then by a Mixin<N> suffix.

type c18SeqOp struct {
	Kind string `json:"kind"`
}

func c18SeqPrimary() string {
	return mustJSON(J{"swagger": "2.0", "info": J{"title": "P", "version": "1"}, "paths": J{
		"/a": J{"get": J{"operationId": "listA", "responses": J{"200": J{"description": "P"}}}},
		"/b": J{"get": J{"responses": J{"200": J{"description": "P"}}}}}})
}

func c18SeqMixins() map[string]string {
	return map[string]string{
		"mix(M1)": mustJSON(J{"swagger": "2.0", "paths": J{"/m1": J{"put": J{"operationId": "createA", "responses": J{"200": J{"description": "M1"}}}, "delete": J{"operationId": "listA", "responses": J{"200": J{"description": "M1"}}}}}}),
		"mix(M2)": mustJSON(J{"swagger": "2.0", "paths": J{"/m2": J{"patch": J{"operationId": "listZ", "responses": J{"200": J{"description": "M2"}}}, "head": J{"operationId": "createA", "responses": J{"200": J{"description": "M2"}}}},
			"/a": J{"get": J{"operationId": "dropped", "responses": J{"200": J{"description": "M2"}}}}}}),
	}
}

func c18ApplyEdit(p *spec.Swagger, kind string) {
	if p.Paths == nil || p.Paths.Paths == nil {
		return
	}
	resp := &spec.Responses{ResponsesProps: spec.ResponsesProps{StatusCodeResponses: map[int]spec.Response{200: {ResponseProps: spec.ResponseProps{Description: "edit"}}}}}
	switch kind {
	case "addop":
		if pi, ok := p.Paths.Paths["/b"]; ok && pi.Post == nil {
			pi.Post = &spec.Operation{OperationProps: spec.OperationProps{ID: "createA", Responses: resp}}
			p.Paths.Paths["/b"] = pi
		}
	case "swap":
		if _, ok := p.Paths.Paths["/a"]; ok {
			delete(p.Paths.Paths, "/a")
			p.Paths.Paths["/z"] = spec.PathItem{PathItemProps: spec.PathItemProps{Get: &spec.Operation{OperationProps: spec.OperationProps{ID: "listZ", Responses: resp}}}}
		}
	}
}

func c18RunSeq(seq []string, pol mcrt.Policy) (sig, what, final string, mixes int) {
	p, err := h.LoadSwagger(c18SeqPrimary())
	if err != nil {
		return "", "", "", 0
	}
	mixins := c18SeqMixins()
	for i, op := range seq {
		switch {
		case op == "reload":
			p2, err := h.LoadSwagger(string(h.Marshal(p)))
			if err != nil {
				return "", "", "", mixes
			}
			p = p2
		case strings.HasPrefix(op, "mix("):
			m, err := h.LoadSwagger(mixins[op])
			if err != nil {
				return "", "", "", mixes
			}
			before, _ := h.ToJSON(h.Marshal(p)).(map[string]any)
			mj, _ := h.ToJSON(h.Marshal(m)).(map[string]any)
			taken := map[string]bool{}
			unique := true
			for _, o := range c18Ops(before) {
				if o.id != "" {
					if taken[o.id] {
						unique = false // the edits made the primary's own ids collide: precondition not met, nothing is claimed
					}
					taken[o.id] = true
				}
			}
			// precondition of the property: no id has the form <id>Mixin<N> of another id of the documents involved
			all := map[string]bool{}
			for id := range taken {
				all[id] = true
			}
			for _, mo := range c18Ops(mj) {
				if mo.id != "" {
					all[mo.id] = true
				}
			}
			for id := range all {
				if i := strings.LastIndex(id, "Mixin"); i > 0 && mixinSuffix.MatchString(id[i:]) && all[id[:i]] {
					unique = false
				}
			}
			hadPath := map[string]bool{}
			for pth := range asObj(before["paths"]) {
				hadPath[pth] = true
			}
			var o h.Outcome
			mcrt.Reset(pol, nil, h.DefaultHorizon)
			h.Guard(&o, func() { analysis.Mixin(p, m) })
			mixes++
			if o.Crashed() {
				return "Mixin " + o.Class() + " at " + o.PanicFrame + " (call sequence)", fmt.Sprintf("step %d of %v: %s", i, seq, o.Panic), "", mixes
			}
			if !unique {
				continue
			}
			after, _ := h.ToJSON(h.Marshal(p)).(map[string]any)
			seen := map[string]string{}
			for _, a := range c18Ops(after) {
				if a.id == "" {
					continue
				}
				if prev, dup := seen[a.id]; dup {
					return "duplicate operation id after a sequence of Mixin calls and edits on one primary", fmt.Sprintf("step %d of %v: id %q on %s and %s %s", i, seq, a.id, prev, a.method, a.path), "", mixes
				}
				seen[a.id] = a.method + " " + a.path
			}
			for _, mo := range c18Ops(mj) {
				if hadPath[mo.path] || mo.id == "" {
					continue // the mixin's path item is skipped / id-less operations are judged by the first part
				}
				got := ""
				for _, a := range c18Ops(after) {
					if a.path == mo.path && a.method == mo.method {
						got = a.id
					}
				}
				switch {
				case !taken[mo.id] && got != mo.id:
					return "an operation id that does not collide was changed (call sequence)", fmt.Sprintf("step %d of %v: %s %s: %q became %q", i, seq, mo.method, mo.path, mo.id, got), "", mixes
				case taken[mo.id] && !(strings.HasPrefix(got, mo.id) && mixinSuffix.MatchString(strings.TrimPrefix(got, mo.id))):
					return "a colliding operation id was not renamed to <id>Mixin<N> (call sequence)", fmt.Sprintf("step %d of %v: %s %s: %q became %q", i, seq, mo.method, mo.path, mo.id, got), "", mixes
				}
			}
		default:
			c18ApplyEdit(p, op)
		}
	}
	return "", "", string(h.Marshal(p)), mixes
}

func c18Sequences(c *Ctx) {
	depth := 4
	if c.Thorough() {
		depth = 5
	}
	alpha := []string{"mix(M1)", "mix(M2)", "addop", "swap", "reload"}
	c.Bounds["sequence_depth"] = depth
	c.Bounds["sequence_alphabet"] = len(alpha)
	var k int64
	var rec func(seq []string)
	rec = func(seq []string) {
		if c.Expired() {
			return
		}
		if len(seq) >= 2 && strings.HasPrefix(seq[len(seq)-1], "mix(") {
			k++
			if c.Mine(k - 1) {
				for _, pol := range []mcrt.Policy{mcrt.Asc, mcrt.Desc} {
					in := J{"seq": append([]string(nil), seq...)}
					c.Begin(&Violation{Signature: "fatal crash of the process", Generator: "c18seq", Input: in, Env: J{"policy": int(pol)}})
					sig, what, final, mixes := c18RunSeq(seq, pol)
					c.Execs++
					c.Validated += int64(mixes)
					c.ChoicePoints += int64(len(seq))
					c.Outcome(hashStr(final + sig))
					if sig != "" {
						c.Violate(&Violation{Signature: sig, What: what, Generator: "c18seq", Input: in, Env: J{"policy": int(pol)}})
					}
				}
				c.Inputs++
				c.NonTrivial++
			}
		}
		if len(seq) == depth {
			return
		}
		for _, op := range alpha {
			if op == "reload" && (len(seq) == 0 || seq[len(seq)-1] == "reload") {
				continue
			}
			rec(append(seq, op))
		}
	}
	rec(nil)
}

func c18SeqReplay(v *Violation) string {
	in := v.Input.(map[string]any)
	var seq []string
	_ = json.Unmarshal([]byte(mustJSON(in["seq"])), &seq)
	pol := mcrt.Asc
	if p, ok := v.Env["policy"].(float64); ok {
		pol = mcrt.Policy(int(p))
	}
	sig, what, _, _ := c18RunSeq(seq, pol)
	if sig == "" {
		return ""
	}
	return sig + ": " + what
}

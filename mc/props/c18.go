package props

import (
	"fmt"
	"regexp"
	"sort"
	"strconv"
	"strings"

	"github.com/go-openapi/analysis"
	"github.com/go-openapi/spec"

	"verif/mc/h"
	"verif/mc/mcrt"
	"verif/mc/mcx"
)

// ---- C18: Mixin keeps operation ids unique ----

var c18IDs = []string{"", "-", "A", "B", "CMixin1"} // absent, id-less, id A, id B, an id that merely looks renamed (no id "C" exists anywhere)

func c18Doc(x *mcx.Exec, tag string, sharedPath bool) (J, bool) {
	paths := J{}
	seen := map[string]bool{}
	okDoc := true
	for pi := 0; pi < 2; pi++ {
		pkey := "/" + tag + strconv.Itoa(pi)
		if sharedPath && pi == 1 {
			pkey = "/shared"
		}
		item := J{}
		for _, m := range methods7 {
			ids := c18IDs[:4]
			if m == "get" {
				ids = c18IDs // the renamed-looking id only under GET (the method is irrelevant to it)
			}
			st := ids[x.Choose(mcx.INPUT, len(ids), tag+"."+pkey+"."+m)]
			if st == "" {
				continue
			}
			op := J{"responses": J{"200": J{"description": tag}}}
			if st != "-" {
				if seen[st] {
					okDoc = false // precondition: ids unique within a document
				}
				seen[st] = true
				op["operationId"] = st
			}
			item[m] = op
		}
		if len(item) == 0 && sharedPath && pi == 1 && tag == "P" {
			// the shared path always exists in the primary (an id-less operation by default), so that the same path
			// in a mixin is skipped without spending further deviations
			item["get"] = J{"responses": J{"200": J{"description": tag}}}
		}
		if len(item) > 0 {
			paths[pkey] = item
		}
	}
	doc := J{"swagger": "2.0", "info": J{"title": tag, "version": "1"}}
	if len(paths) > 0 {
		doc["paths"] = paths
	}
	return doc, okDoc
}

func c18Gen(x *mcx.Exec) (*mixCase, bool) {
	shared := x.Choose(mcx.INPUT, 2, "a path key shared by all documents") == 1
	p, ok := c18Doc(x, "P", shared)
	c := &mixCase{Primary: mustJSON(p)}
	n := []int{2, 1, 3}[x.Choose(mcx.INPUT, 3, "mixins")]
	for i := 0; i < n; i++ {
		d, ok2 := c18Doc(x, "M"+strconv.Itoa(i+1), shared)
		ok = ok && ok2
		c.Mixins = append(c.Mixins, mustJSON(d))
	}
	return c, ok
}

type c18Op struct{ path, method, id string }

func c18Ops(doc map[string]any) []c18Op {
	var out []c18Op
	paths := asObj(doc["paths"])
	for _, p := range h.SortedKeys(paths) {
		for _, m := range methods7 {
			if op := asObj(asObj(paths[p])[m]); op != nil {
				id, _ := op["operationId"].(string)
				out = append(out, c18Op{p, m, id})
			}
		}
	}
	return out
}

var mixinSuffix = regexp.MustCompile(`^Mixin[0-9]+$`)

func c18Run(c *mixCase, pol mcrt.Policy) (sig, what string, final []c18Op, crashed bool) {
	p, ms, pj, mjs, ok := loadAll(c)
	if !ok {
		return "", "", nil, false
	}
	mcrt.Reset(pol, nil, h.DefaultHorizon)
	var o h.Outcome
	h.Guard(&o, func() { analysis.Mixin(p, ms...) })
	if o.Crashed() {
		return "Mixin " + o.Class() + " at " + o.PanicFrame, o.Panic, nil, true
	}
	got, _ := h.ToJSON(h.Marshal(p)).(map[string]any)
	final = c18Ops(got)
	// origin of every path of the merged document: first document that has it
	origin := map[string]int{}
	orig := map[string]string{} // path+method -> original id
	docs := append([]map[string]any{pj}, mjs...)
	for di, d := range docs {
		for _, op := range c18Ops(d) {
			if _, taken := origin[op.path]; taken && origin[op.path] != di {
				continue
			}
			origin[op.path] = di
			orig[op.path+" "+op.method] = op.id
		}
	}
	seen := map[string]c18Op{}
	for _, op := range final {
		if op.id == "" {
			continue
		}
		if prev, dup := seen[op.id]; dup {
			cls := ""
			if op.method == "options" || prev.method == "options" {
				cls = " (involving an OPTIONS operation)"
			}
			if mixinSuffix.MatchString(op.id) {
				cls += " (id-less operations renamed)"
			}
			return "duplicate operation id after Mixin" + cls, fmt.Sprintf("id %q on %s %s and %s %s", op.id, prev.method, prev.path, op.method, op.path), final, false
		}
		seen[op.id] = op
	}
	// ids taken before each mixin is merged: originals of the primary and of the earlier mixins' merged paths
	for _, op := range final {
		o0, known := orig[op.path+" "+op.method]
		if !known {
			return "operation of unknown origin in the merged document", op.path + " " + op.method, final, false
		}
		di := origin[op.path]
		if o0 == "" {
			if op.id != "" {
				return "an operation without id received an id", fmt.Sprintf("%s %s (document %d) now has id %q", op.method, op.path, di, op.id), final, false
			}
			continue
		}
		collides := false
		for dj := 0; dj < di; dj++ {
			for _, e := range c18Ops(docs[dj]) {
				if origin[e.path] == dj && e.id == o0 {
					collides = true
				}
			}
		}
		switch {
		case !collides && op.id != o0:
			return "an operation id that does not collide was changed", fmt.Sprintf("%s %s (document %d): %q became %q", op.method, op.path, di, o0, op.id), final, false
		case collides && op.id == o0:
			return "a colliding operation id was not renamed", fmt.Sprintf("%s %s (document %d) keeps %q", op.method, op.path, di, o0), final, false
		case collides && !(strings.HasPrefix(op.id, o0) && mixinSuffix.MatchString(strings.TrimPrefix(op.id, o0))):
			return "a colliding operation id was renamed to something else than <id>Mixin<N>", fmt.Sprintf("%q became %q", o0, op.id), final, false
		}
	}
	return "", "", final, false
}

func c18Check(c *mixCase, pol mcrt.Policy) (sig, what string, nontrivial bool, outcome string) {
	sig, what, final, crashed := c18Run(c, pol)
	if final == nil && !crashed && sig == "" {
		return "", "", false, ""
	}
	var ids []string
	for _, op := range final {
		ids = append(ids, op.path+" "+op.method+"="+op.id)
		if strings.Contains(op.id, "Mixin") {
			nontrivial = true
		}
	}
	sort.Strings(ids)
	outcome = "ids:" + strings.Join(ids, ";")
	if sig == "" {
		// whatever the iteration order: the other policy must give the same ids
		other := mcrt.Desc
		if pol == mcrt.Desc {
			other = mcrt.Asc
		}
		_, _, f2, _ := c18Run(c, other)
		var ids2 []string
		for _, op := range f2 {
			ids2 = append(ids2, op.path+" "+op.method+"="+op.id)
		}
		sort.Strings(ids2)
		if strings.Join(ids, ";") != strings.Join(ids2, ";") {
			return "operation ids depend on the map iteration order", fmt.Sprintf("%v vs %v", ids, ids2), nontrivial, outcome
		}
	}
	return sig, what, nontrivial, outcome
}

var _ = spec.Swagger{}

func init() {
	register(&Check{ID: "C18", Run: func(c *Ctx) {
		t := 3
		if c.Thorough() {
			t = 4
		}
		c.Bounds["input_deviations"] = t
		c.Bounds["documents"] = "primary + 1..3 mixins, 2 paths each (optionally one path key shared by all), 7 methods, per operation {absent, id-less, id A, id B}"
		var k int64
		e := mcx.New()
		e.Bound[mcx.INPUT] = t
		var mc *mixCase
		var pre bool
		e.Run(func(x *mcx.Exec) { mc, pre = c18Gen(x) }, func(x *mcx.Exec) bool {
			if !pre {
				c.Count("precondition_not_met_skipped", 1)
				return true
			}
			if k%int64(c.NShards) == int64(c.Shard) {
				c.ChoicePoints += int64(len(x.Points))
			}
			runMix(c, "c18", &k, mc, nil, c18Check)
			return k%256 != 0 || !c.Expired()
		})
		c18Sequences(c)
	}, Replay: func(v *Violation) string {
		if v.Generator == "c18seq" {
			return c18SeqReplay(v)
		}
		return mixReplay(c18Check)(v)
	}})
}

package props

import (
	"encoding/json"
	"fmt"
	"reflect"
	"strconv"

	"github.com/go-openapi/analysis"

	"verif/mc/h"
	"verif/mc/mcrt"
	"verif/mc/mcx"
)

// J is a JSON object under construction.
type J = map[string]any

var methods7 = []string{"get", "put", "post", "delete", "options", "head", "patch"}

func mustJSON(v any) string {
	b, err := json.Marshal(v)
	if err != nil {
		panic(err)
	}
	return string(b)
}

func deepCopyJSON(v any) any {
	return h.ToJSON([]byte(mustJSON(v)))
}

// ---- C19: FixEmptyResponseDescriptions ----

// response states: 0 absent, 1 inline with description, 2 inline without description, 3 $ref,
// 4 inline with an explicitly empty description and a schema
func c19Response(state int, tag string) any {
	switch state {
	case 1:
		return J{"description": "has " + tag}
	case 2:
		return J{"schema": J{"type": "string"}}
	case 3:
		// local, relative-file, file:// and http $refs, rotating with the slot
		refs := []string{"#/responses/shared0", "responses.json#/responses/notFound", "file:///specs/responses.json#/responses/gone", "http://example.com/r.json#/responses/x", "other.json"}
		return J{"$ref": refs[len(tag)%len(refs)]}
	case 4:
		return J{"description": "", "headers": J{"X-A": J{"type": "string"}}}
	case 5:
		return J{"description": " \t", "schema": J{"type": "integer"}} // not empty: must be left alone
	}
	return nil
}

const c19States = 6

// c19Gen builds one document from INPUT choices.
func c19Gen(x *mcx.Exec) J {
	doc := J{"swagger": "2.0", "info": J{"title": "t", "version": "1"}}
	// shared responses: two slots
	shared := J{}
	for i := 0; i < 2; i++ {
		st := x.Choose(mcx.INPUT, c19States, "shared"+strconv.Itoa(i))
		if r := c19Response(st, "shared"); r != nil {
			if st == 3 && i == 0 {
				r = J{"$ref": "#/responses/shared1"}
			}
			shared["shared"+strconv.Itoa(i)] = r
		}
	}
	// paths: 0 = paths with /a ; 1 = no paths section; 2 = empty paths
	pmode := x.Choose(mcx.INPUT, 3, "paths")
	npaths := 2
	paths := J{}
	for p := 0; p < npaths; p++ {
		pi := J{}
		for _, m := range methods7 {
			// operation mode: 0 no operation unless a response slot is set; 1 operation without a responses object;
			// 2 operation with an empty responses object. Then one choice per response slot (default, 200, 404).
			mode := x.Choose(mcx.INPUT, 3, fmt.Sprintf("p%d.%s.op", p, m))
			d := x.Choose(mcx.INPUT, c19States, fmt.Sprintf("p%d.%s.default", p, m))
			c2 := x.Choose(mcx.INPUT, c19States, fmt.Sprintf("p%d.%s.200", p, m))
			c4 := x.Choose(mcx.INPUT, c19States, fmt.Sprintf("p%d.%s.404", p, m))
			if mode == 0 && d == 0 && c2 == 0 && c4 == 0 {
				continue
			}
			op := J{}
			if mode != 1 || d+c2+c4 > 0 {
				rs := J{}
				if r := c19Response(d, "default"); r != nil {
					rs["default"] = r
				}
				if r := c19Response(c2, "200"); r != nil {
					rs["200"] = r
				}
				if r := c19Response(c4, "404"); r != nil {
					rs["404"] = r
				}
				op["responses"] = rs
			}
			pi[m] = op
		}
		// a path item may carry a $ref next to its own operations (both are kept by the document model)
		if len(pi) > 0 && x.Choose(mcx.INPUT, 2, fmt.Sprintf("p%d.$ref", p)) == 1 {
			pi["$ref"] = "#/x-items/shared"
			doc["x-items"] = J{"shared": J{"get": J{"responses": J{"200": J{"description": "from the shared item"}}}}}
		}
		if len(pi) > 0 || p == 0 {
			paths[[]string{"/a", "/b/{id}"}[p]] = pi
		}
	}
	if len(shared) > 0 {
		doc["responses"] = shared
	}
	switch pmode {
	case 0:
		doc["paths"] = paths
	case 2:
		doc["paths"] = J{}
	}
	return doc
}

// reffix is the reference model: the expected document after the call, computed on generic JSON.
func reffix(before any) any {
	doc := deepCopyJSON(before).(map[string]any)
	fix := func(r any) {
		m, ok := r.(map[string]any)
		if !ok {
			return
		}
		if _, isRef := m["$ref"]; isRef {
			return
		}
		if d, _ := m["description"].(string); d == "" {
			m["description"] = "(empty)"
		}
	}
	if rs, ok := doc["responses"].(map[string]any); ok {
		for _, r := range rs {
			fix(r)
		}
	}
	if ps, ok := doc["paths"].(map[string]any); ok {
		for _, pi := range ps {
			pim, ok := pi.(map[string]any)
			if !ok {
				continue
			}
			for _, m := range methods7 {
				op, ok := pim[m].(map[string]any)
				if !ok {
					continue
				}
				rs, ok := op["responses"].(map[string]any)
				if !ok {
					continue
				}
				for k, r := range rs {
					if k == "default" {
						fix(r)
					} else if _, err := strconv.Atoi(k); err == nil {
						fix(r)
					}
				}
			}
		}
	}
	return doc
}

type c19Obs struct {
	Before, After, After2 string
	Out                   h.Outcome
}

func c19Exec(docJSON string, pol mcrt.Policy) (*c19Obs, string, string) {
	obs := &c19Obs{}
	sw, err := h.LoadSwagger(docJSON)
	if err != nil {
		return nil, "", "" // not loadable: outside the quantifier
	}
	obs.Before = string(h.Marshal(sw))
	mcrt.Reset(pol, nil, h.DefaultHorizon)
	h.Guard(&obs.Out, func() {
		analysis.FixEmptyResponseDescriptions(sw)
		obs.After = string(h.Marshal(sw))
		analysis.FixEmptyResponseDescriptions(sw)
		obs.After2 = string(h.Marshal(sw))
	})
	if obs.Out.Crashed() {
		sig := "crash " + obs.Out.Class() + " at " + obs.Out.PanicFrame
		return obs, sig, fmt.Sprintf("FixEmptyResponseDescriptions %s: %s", obs.Out.Class(), obs.Out.Panic)
	}
	want := reffix(h.ToJSON([]byte(obs.Before)))
	got := h.ToJSON([]byte(obs.After))
	if !reflect.DeepEqual(want, got) {
		return obs, "wrong-result", "document after the call differs from the reference model: want " + mustJSON(want) + " got " + obs.After
	}
	if obs.After2 != obs.After {
		return obs, "second-call-not-noop", "a second call changed the document"
	}
	return obs, "", ""
}

func init() {
	register(&Check{ID: "C19", Run: func(c *Ctx) {
		e := mcx.New()
		t := 2
		if c.Thorough() {
			t = 3
		}
		e.Bound[mcx.INPUT] = t
		c.Bounds["input_deviations"] = t
		c.Bounds["response_states"] = c19States
		c.Bounds["map_order_policies"] = 2
		var k int64
		var doc J
		e.Run(func(x *mcx.Exec) { doc = c19Gen(x) }, func(x *mcx.Exec) bool {
			k++
			if !c.Mine(k - 1) {
				return true
			}
			dj := mustJSON(doc)
			nt := false
			for _, pol := range []mcrt.Policy{mcrt.Asc, mcrt.Desc} {
				c.Begin(&Violation{Signature: "fatal crash of the process", Generator: "c19", Input: J{"doc": json.RawMessage(dj)}, Env: J{"policy": int(pol)}})
				obs, sig, what := c19Exec(dj, pol)
				if obs == nil {
					c.Count("not_loadable", 1)
					continue
				}
				c.Execs++
				c.Validated++
				c.Outcome(hashStr(obs.After + obs.Out.Class()))
				if obs.After != obs.Before {
					nt = true
				}
				if sig != "" {
					c.Violate(&Violation{Signature: sig, What: what, Generator: "c19", Input: J{"doc": json.RawMessage(dj), "choices": x.Choices()}, Env: J{"policy": int(pol)}})
				}
				if nt && !obs.Out.Crashed() && pol == mcrt.Asc {
					c.Sample(J{"doc": json.RawMessage(dj), "after": json.RawMessage(obs.After), "policy": "asc"})
				}
			}
			if nt {
				c.NonTrivial++
			}
			return !c.Expired()
		})
		c.ChoicePoints = e.Stats.ChoicePoints
		c19Sequences(c)
	}, Replay: func(v *Violation) string {
		if v.Generator == "c19seq" {
			return c19SeqReplay(v)
		}
		in := v.Input.(map[string]any)
		dj := mustJSON(in["doc"])
		pol := mcrt.Asc
		if p, ok := v.Env["policy"].(float64); ok {
			pol = mcrt.Policy(int(p))
		}
		_, sig, what := c19Exec(dj, pol)
		if sig == "" {
			return ""
		}
		return sig + ": " + what
	}})
}

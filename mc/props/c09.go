package props

import (
	"encoding/json"
	"fmt"
	"strings"

	"github.com/go-openapi/analysis"
	"github.com/go-openapi/spec"

	"verif/mc/gen"
	"verif/mc/h"
	"verif/mc/mcrt"
	"verif/mc/mcx"
	"verif/mc/oracle"
)

// ---- C09: Flatten, New and Schema fail safe ----

func c09OptionSets(withContinue bool) []h.Opts {
	var out []h.Opts
	for _, mode := range []string{"minimal", "full", "expand"} {
		for _, ru := range []bool{false, true} {
			for _, coe := range []bool{false, true} {
				if coe && !withContinue {
					continue
				}
				out = append(out, h.Opts{Minimal: mode == "minimal", Expand: mode == "expand", RemoveUnused: ru, ContinueOnError: coe})
			}
		}
	}
	if withContinue {
		// the reporting path (Verbose) must not crash either
		out = append(out, h.Opts{Verbose: true}, h.Opts{Minimal: true, RemoveUnused: true, Verbose: true})
	}
	return out
}

func panicClass(msg string) string {
	s := reQuoted.ReplaceAllString(msg, "_")
	if len(s) > 90 {
		s = s[:90]
	}
	return s
}

var plusFeatureLabels = func() map[string]bool {
	m := map[string]bool{}
	for _, f := range gen.PlusFeatures() {
		m[f.Label] = true
	}
	return m
}()

var plusContentLabels = func() []string {
	var l []string
	for _, c := range gen.PlusContents() {
		l = append(l, c.Label)
	}
	return l
}()

func plusClass(labels []string) string {
	var cls []string
	for _, l := range labels {
		if i := strings.Index(l, "plusPointer["); i >= 0 {
			cls = append(cls, strings.TrimSuffix(l[i+len("plusPointer["):], "]"))
			continue
		}
		if plusFeatureLabels[l] {
			cls = append(cls, l)
			continue
		}
		for _, pc := range plusContentLabels {
			if strings.HasSuffix(l, "<-"+pc) {
				cls = append(cls, pc)
				break
			}
		}
	}
	if len(cls) == 0 {
		return "bundle of W"
	}
	return strings.Join(cls, "+")
}

// isPlus: the bundle uses a feature of W+ (its auxiliary documents are then not necessarily all referenced).
func isPlus(labels []string) bool { return plusClass(labels) != "bundle of W" }

// onlyUnderSiblings: every unresolvable $ref of the bundle sits under a sibling keyword of a $ref.
func onlyUnderSiblings(labels []string) bool {
	n := 0
	for _, l := range labels {
		if strings.Contains(l, "dangling") || strings.Contains(l, "Dangling") {
			if !strings.Contains(l, "danglingUnderSiblingOfRef") {
				return false
			}
			n++
		}
	}
	return n > 0
}

func hasDangling(labels []string) bool {
	for _, l := range labels {
		if strings.Contains(l, "dangling") || strings.Contains(l, "Dangling") {
			return true
		}
	}
	return false
}

// c09Flatten runs one Flatten and applies the fail-safe oracle.
func c09Flatten(c *Ctx, in *flatInput, o h.Opts, pol mcrt.Policy) {
	c.Begin(&Violation{Signature: "fatal crash of the process", Generator: "c09", Input: in.B, Env: J{"policy": int(pol), "opts": o, "kind": "flatten"}})
	r := h.RunFlatten(in.B, o, h.Env{Policy: pol}, nil)
	c.Execs++
	c.Validated++
	c.Outcome(r.Hash())
	viol := func(sig, what string) {
		c.Violate(&Violation{Signature: sig, What: what, Generator: "c09", Input: in.B, Env: J{"policy": int(pol), "opts": o, "kind": "flatten"}})
	}
	switch {
	case r.Horizon:
		viol("Flatten diverges ("+plusClass(in.Labels)+")", fmt.Sprintf("step horizon exceeded at site %s, options %s", siteLabel(r.HorizonSite), o))
	case r.Panic != "":
		viol("Flatten panics at "+r.PanicFrame+": "+panicClass(r.Panic)+" ("+plusClass(in.Labels)+")", r.Panic+" with options "+o.String())
	case r.Err == "" && !o.ContinueOnError && hasDangling(in.Labels):
		if onlyUnderSiblings(in.Labels) && !strings.Contains(string(r.Out), "missing.json") && !strings.Contains(string(r.Out), "nopeSibling") {
			break // the unresolvable $refs sat under siblings of a $ref and the result no longer holds them (Expand drops such siblings)
		}
		viol("Flatten reports success although a $ref cannot be resolved ("+plusClass(in.Labels)+", "+modeOf(o)+")", "options "+o.String()+"; output: "+string(r.Out))
	}
}

func modeOf(o h.Opts) string {
	switch {
	case o.Minimal:
		return "minimal"
	case o.Expand:
		return "expand"
	}
	return "full"
}

// c09NewAndSchema: New on every document of the bundle, Schema on every schema position of the root.
func c09NewAndSchema(c *Ctx, in *flatInput, pol mcrt.Policy) {
	c.Begin(&Violation{Signature: "fatal crash of the process", Generator: "c09", Input: in.B, Env: J{"policy": int(pol), "kind": "new"}})
	for f, d := range in.B.Files {
		sw, err := h.LoadSwagger(d)
		if err != nil {
			continue
		}
		h.Install(in.B)
		mcrt.Reset(pol, nil, h.DefaultHorizon)
		var o h.Outcome
		var an *analysis.Spec
		h.Guard(&o, func() { an = analysis.New(sw) })
		c.Execs++
		c.Validated++
		if o.Crashed() {
			c.Violate(&Violation{Signature: "New " + o.Class() + " at " + o.PanicFrame + ": " + panicClass(o.Panic), What: f + ": " + o.Panic, Generator: "c09", Input: in.B, Env: J{"policy": int(pol), "kind": "new", "file": f}})
			continue
		}
		if f != in.B.Root {
			continue
		}
		var defs []analysis.SchemaRef
		h.Guard(&o, func() { defs = an.AllDefinitions() })
		for _, d := range defs {
			var so h.Outcome
			mcrt.Reset(pol, nil, h.DefaultHorizon)
			h.Guard(&so, func() {
				_, _ = analysis.Schema(analysis.SchemaOpts{Schema: d.Schema, Root: sw, BasePath: h.VRoot + "/" + in.B.Root})
			})
			c.Execs++
			c.Validated++
			if so.Crashed() {
				c.Violate(&Violation{Signature: "Schema " + so.Class() + " at " + so.PanicFrame + ": " + panicClass(so.Panic) + " (" + plusClass(in.Labels) + ")", What: d.Ref.String() + ": " + so.Panic,
					Generator: "c09", Input: in.B, Env: J{"policy": int(pol), "kind": "schema", "ref": d.Ref.String()}})
			}
		}
	}
}

// c09Faults: for every load of the run, fail it in each of three ways (bound d deviations).
func c09Faults(c *Ctx, in *flatInput, o h.Opts, bound int) {
	base := h.RunFlatten(in.B, o, h.Env{Policy: mcrt.Asc}, nil)
	c.Execs++
	if base.Crashed() {
		return // reported by the fault-free part
	}
	e := mcx.New()
	e.Bound[mcx.FAULT] = bound
	e.MaxExec = 5000
	var res *h.FlattenResult
	e.Run(func(x *mcx.Exec) {
		res = h.RunFlatten(in.B, o, h.Env{Policy: mcrt.Asc}, func(n int, path string) h.FaultKind {
			return h.FaultKind(x.Choose(mcx.FAULT, 4, fmt.Sprintf("load#%d:%s", n, path)))
		})
	}, func(x *mcx.Exec) bool {
		devs := x.Deviations()
		if len(devs) == 0 {
			return true
		}
		c.Execs++
		c.Validated++
		c.Outcome(res.Hash())
		var dl []string
		kinds := ""
		for _, d := range devs {
			k := []string{"", "error", "malformed", "empty"}[d.Choice]
			dl = append(dl, d.Label+"="+k)
			kinds += k + " "
		}
		viol := func(sig, what string) {
			c.Violate(&Violation{Signature: sig, What: what, Generator: "c09", Input: in.B, Env: J{"policy": 0, "opts": o, "kind": "fault", "choices": x.Choices()}})
		}
		switch {
		case res.Horizon:
			viol("Flatten diverges after a failed document load ("+strings.TrimSpace(kinds)+")", fmt.Sprint(dl))
		case res.Panic != "":
			viol("Flatten panics after a failed document load at "+res.PanicFrame+": "+panicClass(res.Panic), fmt.Sprint(dl, " ", res.Panic))
		case res.Err == "" && !o.ContinueOnError && string(res.Out) != string(base.Out) && !onlyEmptyWholeDocs(in, devs):
			viol("Flatten reports success with a different result although a document load failed ("+strings.TrimSpace(kinds)+", "+modeOf(o)+")",
				fmt.Sprintf("faults %v, options %s\nfault-free output: %s\noutput: %s", dl, o, base.Out, res.Out))
		}
		return true
	})
	c.ChoicePoints += e.Stats.ChoicePoints
	if e.Stats.CapHit {
		c.Cap("fault exploration truncated at 5000 executions for one (bundle, options)")
	}
}

// c09MissingDocs: document-level faults. For every auxiliary document of a bundle of W (every one of them is referenced),
// the whole run is made with that document unavailable: EVERY load of it fails. Without ContinueOnError Flatten must
// return an error. (The per-call fault enumeration cannot see a load that never happens, e.g. one served from a cache
// filled by an earlier call in the same process; the preceding fault-free run of the same bundle plays that earlier call.)
func c09MissingDocs(c *Ctx, in *flatInput, o h.Opts) {
	if o.ContinueOnError {
		return
	}
	base := h.RunFlatten(in.B, o, h.Env{Policy: mcrt.Asc}, nil)
	c.Execs++
	if !base.OK() {
		return
	}
	for _, f := range h.SortedKeys(filesAsAny(in.B.Files)) {
		if f == in.B.Root {
			continue
		}
		f := f
		res := h.RunFlatten(in.B, o, h.Env{Policy: mcrt.Asc}, func(n int, path string) h.FaultKind {
			if path == f {
				return h.FaultError
			}
			return h.NoFault
		})
		c.Execs++
		c.Validated++
		c.Outcome(res.Hash())
		viol := func(sig, what string) {
			c.Violate(&Violation{Signature: sig, What: what, Generator: "c09", Input: in.B, Env: J{"policy": 0, "opts": o, "kind": "missingdoc", "file": f}})
		}
		switch {
		case res.Horizon:
			viol("Flatten diverges when a referenced document cannot be loaded", f)
		case res.Panic != "":
			viol("Flatten panics when a referenced document cannot be loaded at "+res.PanicFrame+": "+panicClass(res.Panic), f+": "+res.Panic)
		case res.Err == "":
			viol("Flatten reports success although a referenced document cannot be loaded ("+modeOf(o)+")", fmt.Sprintf("every load of %s fails (it loaded fine in the preceding call on the same bundle), options %s; output: %s", f, o, res.Out))
		}
	}
}

func filesAsAny(m map[string]string) map[string]any {
	out := map[string]any{}
	for k := range m {
		out[k] = nil
	}
	return out
}

func init() {
	register(&Check{ID: "C09", Run: func(c *Ctx) {
		_, wPairs := flatCatalogues(c)
		// W+ catalogue: every holder x every W+ content, the W+ features, and W contents with the guards lifted
		holderFilter := func(hn string) bool {
			return c.Thorough() || hn == "prop" || hn == "opBody" || hn == "additionalItems" || hn == "sharedResponse" || hn == "defBody"
		}
		var plus []gen.Feature
		for _, hd := range gen.Holders() {
			if !holderFilter(hd.Label) {
				continue
			}
			for _, ct := range gen.PlusContents() {
				hd, ct := hd, ct
				plus = append(plus, gen.Feature{Label: hd.Label + "<-" + ct.Label, Class: "plus", Apply: func(b *gen.BundleSpec, slot int) { hd.Put(b, slot, ct.Make(b, slot)) }})
			}
		}
		plus = append(plus, gen.PlusFeatures()...)
		c.Bounds["catalogue_W"] = len(wPairs)
		c.Bounds["catalogue_Wplus"] = len(plus)
		c.Bounds["fault_deviations"] = 1
		c.Bounds["fault_kinds"] = []string{"error", "malformed JSON", "empty document"}
		if c.Thorough() {
			c.Bounds["pairs"] = "every W+ feature x every W feature"
		} else {
			c.Bounds["pairs"] = "W+ features on the 'prop' holder and non-schema W+ features x a fixed fifth of the W features (deterministic residue classes); thorough: all"
		}
		opts := c09OptionSets(true)
		var k int64
		do := func(fs []gen.Feature, idx []int, faults bool) bool {
			k++
			if !c.Mine(k - 1) {
				return true
			}
			in, ok := buildFlatInputLoose(fs, idx)
			if !ok {
				c.Count("conflicting_or_unloadable_combinations_skipped", 1)
				return true
			}
			c.NonTrivial++
			for _, pol := range []mcrt.Policy{mcrt.Asc, mcrt.Desc} {
				for _, o := range opts {
					c09Flatten(c, in, o, pol)
				}
				c09NewAndSchema(c, in, pol)
			}
			if faults && in.Spec.HasAux() {
				fo := c09OptionSets(c.Thorough())
				for _, o := range fo {
					if !c.Thorough() && o.RemoveUnused {
						continue
					}
					b := 1
					if c.Thorough() && len(idx) == 1 {
						b = 2
					}
					c09Faults(c, in, o, b)
					if !isPlus(in.Labels) {
						c09MissingDocs(c, in, o)
					}
				}
			}
			if len(c.Samples) < 3 && len(idx) == 2 {
				c.Sample(J{"features": in.Labels, "files": in.B.Files})
			}
			return !c.Expired()
		}
		// W and W+ singles (W singles with fault enumeration)
		for i := range wPairs {
			if !do(wPairs, []int{i}, true) {
				return
			}
		}
		for i := range plus {
			if !do(plus, []int{i}, true) {
				return
			}
		}
		// pairs: W+ feature x W feature (quick: W+ features on 2 holders x every 5th W feature)
		all := append(append([]gen.Feature{}, plus...), wPairs...)
		np := len(plus)
		for i := 0; i < np; i++ {
			if !c.Thorough() && !(strings.HasPrefix(plus[i].Label, "prop<-") || !strings.Contains(plus[i].Label, "<-")) {
				continue
			}
			for j := np; j < len(all); j++ {
				if !c.Thorough() && (j-np)%5 != i%5 {
					continue
				}
				if !do(all, []int{i, j}, false) {
					return
				}
			}
		}
	}, Replay: func(v *Violation) string {
		b, _ := json.Marshal(v.Input)
		var bundle h.Bundle
		if err := json.Unmarshal(b, &bundle); err != nil {
			return ""
		}
		in := &flatInput{B: &bundle, Spec: specTraits(&bundle), Labels: bundle.Desc}
		if !in.prepareLoose() {
			return ""
		}
		ob, _ := json.Marshal(v.Env["opts"])
		var o h.Opts
		_ = json.Unmarshal(ob, &o)
		pol := mcrt.Asc
		if p, ok := v.Env["policy"].(float64); ok {
			pol = mcrt.Policy(int(p))
		}
		c := NewCtx("C09", "quick", 0, 1, "")
		c.MaxReplays = 0
		switch v.Env["kind"] {
		case "flatten":
			c09Flatten(c, in, o, pol)
		case "new", "schema":
			c09NewAndSchema(c, in, pol)
		case "missingdoc":
			c09MissingDocs(c, in, o)
		case "fault":
			var choices []int
			cb, _ := json.Marshal(v.Env["choices"])
			_ = json.Unmarshal(cb, &choices)
			base := h.RunFlatten(in.B, o, h.Env{Policy: mcrt.Asc}, nil)
			var res *h.FlattenResult
			mcx.Replay(choices, func(x *mcx.Exec) {
				res = h.RunFlatten(in.B, o, h.Env{Policy: mcrt.Asc}, func(n int, path string) h.FaultKind {
					return h.FaultKind(x.Choose(mcx.FAULT, 4, fmt.Sprintf("load#%d:%s", n, path)))
				})
			})
			switch {
			case res.Crashed():
				return "crash after fault: " + res.Panic
			case res.Err == "" && !o.ContinueOnError && string(res.Out) != string(base.Out):
				return "success with a different result although a document load failed"
			}
			return ""
		}
		for sig, g := range c.groups {
			if sig == v.Signature {
				return sig + ": " + g.What
			}
		}
		for sig, g := range c.groups {
			return sig + ": " + g.What
		}
		return ""
	}})
}

// buildFlatInputLoose builds a bundle without requiring that every $ref resolves.
func buildFlatInputLoose(fs []gen.Feature, idx []int) (*flatInput, bool) {
	bs := gen.NewBundleSpec()
	for slot, i := range idx {
		fs[i].Apply(bs, slot)
	}
	files, ok := bs.Render()
	if !ok {
		return nil, false
	}
	in := &flatInput{B: &h.Bundle{Files: files, Root: gen.RootFile}, Spec: bs}
	for _, i := range idx {
		in.Labels = append(in.Labels, fs[i].Label)
	}
	in.B.Desc = in.Labels
	return in, in.prepareLoose()
}

func (in *flatInput) prepareLoose() bool {
	if _, err := h.LoadSwagger(in.B.Files[in.B.Root]); err != nil {
		return false
	}
	in.In = &oracle.Bundle{Files: map[string]any{}}
	for f, d := range in.B.Files {
		in.In.Files[f] = h.ToJSON([]byte(d))
	}
	in.InRoot, _ = in.In.Files[in.B.Root].(map[string]any)
	return in.InRoot != nil
}

var _ = spec.Swagger{}

// onlyEmptyWholeDocs tells whether every injected fault replaced by an empty document a file that the
// bundle references as a whole document: "{}" is then a legitimate (empty) schema, not a failed load.
func onlyEmptyWholeDocs(in *flatInput, devs []mcx.Point) bool {
	whole := map[string]bool{}
	for f, v := range in.In.Files {
		var occ []oracle.RefOccurrence
		oracle.ScanRefs(v, nil, &occ)
		for _, o := range occ {
			if !strings.Contains(o.Ref, "#") || strings.HasSuffix(o.Ref, "#") {
				if file, _, err := oracle.SplitRef(f, o.Ref); err == nil {
					whole[file] = true
				}
			}
		}
	}
	for _, d := range devs {
		if d.Choice != int(h.FaultEmpty) {
			return false
		}
		i := strings.Index(d.Label, ":")
		if i < 0 || !whole[d.Label[i+1:]] {
			return false
		}
	}
	return true
}

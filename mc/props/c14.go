package props

import (
	"encoding/json"
	"fmt"
	"reflect"
	"sort"
	"strings"

	"github.com/go-openapi/analysis"
	"github.com/go-openapi/spec"

	"verif/mc/h"
	"verif/mc/mcrt"
	"verif/mc/mcx"
)

// ---- C14: operation lookups ----

var c14Media = []any{nil, []any{}, []any{"x"}, []any{"x", "y"}, []any{"X"}, []any{"y", "x", "Y"}} // media types are compared as written: "x" and "X" are two
var c14Security = []any{nil, []any{}, []any{J{}}, []any{J{"k": []any{}}}, []any{J{"k": []any{"s"}}, J{"j": []any{}}}, []any{J{"k": []any{"s"}, "j": []any{"t", "u"}}},
	// a later alternative combines an already seen scheme with new ones; an alternative naming an undefined scheme
	[]any{J{"k": []any{}}, J{"j": []any{}, "k": []any{"s"}, "m": []any{}}}, []any{J{"m": []any{}}, J{}, J{"undefined": []any{}}},
	// a scheme whose name is the concatenation of two other scheme names, alone and next to them
	[]any{J{"jk": []any{}}}, []any{J{"j": []any{}, "k": []any{}}}, []any{J{"jk": []any{}}, J{"j": []any{}, "k": []any{}}}}
var c14SecDefs = []any{nil, J{"k": J{"type": "basic"}}, J{"k": J{"type": "basic"}, "j": J{"type": "apiKey", "name": "n", "in": "header"}},
	J{"k": J{"type": "basic"}, "j": J{"type": "apiKey", "name": "n", "in": "header"}, "m": J{"type": "apiKey", "name": "m", "in": "query"}},
	J{"k": J{"type": "basic"}, "j": J{"type": "apiKey", "name": "n", "in": "header"}, "jk": J{"type": "apiKey", "name": "jk", "in": "query"}, "kj": J{"type": "basic", "description": "kj"}}}

func c14Op(x *mcx.Exec, label string, forceFactors bool) J {
	op := J{"responses": J{"200": J{"description": "ok"}}}
	switch x.Choose(mcx.INPUT, 3, label+".id") {
	case 1:
		op["operationId"] = "id_" + strings.NewReplacer("/", "_", "{", "", "}", "", " ", "_").Replace(label)
	case 2:
		op["operationId"] = "dup"
	}
	if v := c14Media[x.Choose(mcx.INPUT, len(c14Media), label+".consumes")]; v != nil {
		op["consumes"] = v
	}
	if v := c14Media[x.Choose(mcx.INPUT, len(c14Media), label+".produces")]; v != nil {
		op["produces"] = v
	}
	if v := c14Security[x.Choose(mcx.INPUT, len(c14Security), label+".security")]; v != nil {
		op["security"] = v
	}
	return op
}

var c14PathSpellings = []string{"/b/{id}", "/a/", "/b/./{id}", "//b", "/a/../b", "/A", "/b/{id}/", "/a b/{x}", "/~a/{b}"}

func c14Gen(x *mcx.Exec) J {
	doc := J{"swagger": "2.0", "info": J{"title": "t", "version": "1"}}
	if v := c14Media[x.Choose(mcx.INPUT, len(c14Media), "doc.consumes")]; v != nil {
		doc["consumes"] = v
	}
	if v := c14Media[x.Choose(mcx.INPUT, len(c14Media), "doc.produces")]; v != nil {
		doc["produces"] = v
	}
	if v := c14Security[x.Choose(mcx.INPUT, len(c14Security), "doc.security")]; v != nil {
		doc["security"] = v
	}
	if v := c14SecDefs[x.Choose(mcx.INPUT, len(c14SecDefs), "doc.securityDefinitions")]; v != nil {
		doc["securityDefinitions"] = v
	}
	pa := J{}
	// the probe operation GET /a is always present; the other six are deviations
	pa["get"] = c14Op(x, "get /a", true)
	for _, m := range methods7[1:] {
		if x.Choose(mcx.INPUT, 2, "present "+m+" /a") == 1 {
			pa[m] = c14Op(x, m+" /a", false)
		}
	}
	paths := J{"/a": pa}
	if k := x.Choose(mcx.INPUT, 8, "method on /b/{id}"); k > 0 {
		m := methods7[k-1]
		// the second path is spelled in one of several ways: paths are matched exactly as written in the document,
		// so a spelling that some normalisation would alter (trailing slash, dot segments, doubled slash, letter case) is a different path
		sp := c14PathSpellings[x.Choose(mcx.INPUT, len(c14PathSpellings), "spelling of the second path")]
		paths[sp] = J{m: c14Op(x, m+" /b/{id}", false)}
	}
	if x.Choose(mcx.INPUT, 2, "no paths") == 1 {
		return doc
	}
	doc["paths"] = paths
	return doc
}

type c14Req struct {
	Name   string
	Scopes []string
}

func strList(v any) []string {
	var out []string
	for _, e := range asArr(v) {
		out = append(out, fmt.Sprint(e))
	}
	return out
}

func asArr(v any) []any {
	a, _ := v.([]any)
	return a
}

func asObj(v any) map[string]any {
	m, _ := v.(map[string]any)
	return m
}

func setOf(l []string) []string {
	m := map[string]bool{}
	for _, s := range l {
		m[s] = true
	}
	out := make([]string, 0, len(m))
	for s := range m {
		out = append(out, s)
	}
	sort.Strings(out)
	return out
}

func sameSet(a, b []string) bool { return reflect.DeepEqual(setOf(a), setOf(b)) }

// refSecurity is the reference model of the effective security requirements.
func refSecurity(doc, op map[string]any) [][]c14Req {
	var src any
	if s, declared := op["security"]; declared {
		src = s
	} else {
		src = doc["security"]
	}
	var out [][]c14Req
	for _, r := range asArr(src) {
		m := asObj(r)
		if len(m) == 0 {
			out = append(out, []c14Req{{}})
			continue
		}
		var reqs []c14Req
		for _, k := range h.SortedKeys(m) {
			sc := strList(m[k])
			if sc == nil {
				sc = []string{}
			}
			reqs = append(reqs, c14Req{k, sc})
		}
		out = append(out, reqs)
	}
	return out
}

func normReqs(in [][]analysis.SecurityRequirement) [][]c14Req {
	var out [][]c14Req
	for _, rs := range in {
		var l []c14Req
		for _, r := range rs {
			sc := r.Scopes
			if r.Name != "" && sc == nil {
				sc = []string{}
			}
			if r.Name == "" && len(sc) == 0 {
				sc = nil
			}
			l = append(l, c14Req{r.Name, sc})
		}
		sort.Slice(l, func(i, j int) bool { return l[i].Name < l[j].Name })
		out = append(out, l)
	}
	return out
}

func c14Check(docJSON string, pol mcrt.Policy) (sig, what string, nontrivial bool, outcome string) {
	an, obs, doc := analyzeDoc(docJSON, pol)
	if obs == nil {
		return "", "", false, ""
	}
	if obs.Out.Crashed() {
		return "crash " + obs.Out.Class() + " at " + obs.Out.PanicFrame, obs.Out.Panic, false, "crash"
	}
	fail := func(s, w string) {
		if sig == "" {
			sig, what = s, w
		}
	}
	type opInfo struct {
		method, path string
		op           map[string]any
	}
	var ops []opInfo
	paths := asObj(doc["paths"])
	for _, p := range h.SortedKeys(paths) {
		for _, m := range methods7 {
			if op := asObj(asObj(paths[p])[m]); op != nil {
				ops = append(ops, opInfo{strings.ToUpper(m), p, op})
			}
		}
	}
	nontrivial = len(ops) > 1
	var o h.Outcome
	var sb strings.Builder
	h.Guard(&o, func() {
		// Operations()
		got := an.Operations()
		n := 0
		for m, byPath := range got {
			for p, op := range byPath {
				n++
				var exp map[string]any
				for _, e := range ops {
					if e.method == m && e.path == p {
						exp = e.op
					}
				}
				if exp == nil {
					fail("Operations lists an operation that is not in the document", m+" "+p)
				} else if !reflect.DeepEqual(h.ToJSON(h.Marshal(op)), any(exp)) {
					fail("Operations returns a wrong operation", m+" "+p)
				}
			}
		}
		if n != len(ops) {
			fail("Operations misses operations", fmt.Sprintf("%d listed, %d in the document", n, len(ops)))
		}
		// AllPaths
		ap := an.AllPaths()
		if len(ap) != len(paths) {
			fail("AllPaths wrong", fmt.Sprintf("%d paths, document has %d", len(ap), len(paths)))
		}
		for p, pi := range ap {
			if !reflect.DeepEqual(h.ToJSON(h.Marshal(pi)), paths[p]) {
				fail("AllPaths wrong value", p)
			}
		}
		// listings
		var expIDs, expMP []string
		idCount := map[string]int{}
		for _, e := range ops {
			mp := e.method + " " + e.path
			expMP = append(expMP, mp)
			if id, _ := e.op["operationId"].(string); id != "" {
				expIDs = append(expIDs, id)
				idCount[id]++
			} else {
				expIDs = append(expIDs, mp)
			}
		}
		if g := an.OperationIDs(); !sameMultiset(g, expIDs) {
			fail("OperationIDs wrong", fmt.Sprintf("got %v want %v", sortedCopy(g), sortedCopy(expIDs)))
		}
		if g := an.OperationMethodPaths(); !sameMultiset(g, expMP) {
			fail("OperationMethodPaths wrong", fmt.Sprintf("got %v want %v", sortedCopy(g), sortedCopy(expMP)))
		}
		// lookups by method and path, every method spelling x every path incl. unknown ones
		// probes: every path of the document exactly as spelled there, plus paths that no normalisation maps to one of them
		probes := append([]string{"/nope", "/nope/{id}", ""}, h.SortedKeys(paths)...)
		for _, p := range probes {
			for _, m := range methods7 {
				var exp map[string]any
				for _, e := range ops {
					if e.method == strings.ToUpper(m) && e.path == p {
						exp = e.op
					}
				}
				for _, spelled := range []string{m, strings.ToUpper(m), strings.ToUpper(m[:1]) + m[1:]} {
					op, found := an.OperationFor(spelled, p)
					if found != (exp != nil) {
						fail("OperationFor: wrong found flag for method "+strings.ToUpper(m), fmt.Sprintf("OperationFor(%q,%q) found=%v, operation in document: %v", spelled, p, found, exp != nil))
					} else if found && !reflect.DeepEqual(h.ToJSON(h.Marshal(op)), any(exp)) {
						fail("OperationFor returns a wrong operation", spelled+" "+p)
					}
				}
			}
		}
		if _, found := an.OperationFor("TRACE", "/a"); found {
			fail("OperationFor finds an operation for an unknown method", "TRACE /a")
		}
		// lookups by id (claimed for non-empty unique ids) and unknown ids
		for _, e := range ops {
			id, _ := e.op["operationId"].(string)
			if id == "" || idCount[id] != 1 {
				continue
			}
			m, p, op, found := an.OperationForName(id)
			if !found || m != e.method || p != e.path || !reflect.DeepEqual(h.ToJSON(h.Marshal(op)), any(e.op)) {
				fail("OperationForName wrong for method "+e.method, fmt.Sprintf("OperationForName(%q) = (%q,%q,found=%v), want (%q,%q)", id, m, p, found, e.method, e.path))
			}
		}
		if _, _, _, found := an.OperationForName("no-such-id"); found {
			fail("OperationForName finds an unknown id", "no-such-id")
		}
		// required media types and security schemes: unions over document and operations
		reqC, reqP, reqS := strList(doc["consumes"]), strList(doc["produces"]), []string{}
		for _, r := range asArr(doc["security"]) {
			for k := range asObj(r) {
				reqS = append(reqS, k)
			}
		}
		for _, e := range ops {
			reqC = append(reqC, strList(e.op["consumes"])...)
			reqP = append(reqP, strList(e.op["produces"])...)
			for _, r := range asArr(e.op["security"]) {
				for k := range asObj(r) {
					reqS = append(reqS, k)
				}
			}
		}
		if g := an.RequiredConsumes(); !sameMultiset(g, setOf(reqC)) {
			fail("RequiredConsumes wrong", fmt.Sprintf("got %v want %v", g, setOf(reqC)))
		}
		if g := an.RequiredProduces(); !sameMultiset(g, setOf(reqP)) {
			fail("RequiredProduces wrong", fmt.Sprintf("got %v want %v", g, setOf(reqP)))
		}
		if g := an.RequiredSecuritySchemes(); !sameMultiset(g, setOf(reqS)) {
			fail("RequiredSecuritySchemes wrong", fmt.Sprintf("got %v want %v", g, setOf(reqS)))
		}
		secDefs := asObj(doc["securityDefinitions"])
		// per operation
		for _, e := range ops {
			op, found := an.OperationFor(e.method, e.path)
			if !found {
				continue
			}
			expC := strList(e.op["consumes"])
			if len(expC) == 0 {
				expC = strList(doc["consumes"])
			}
			if g := an.ConsumesFor(op); !sameMultiset(g, setOf(expC)) {
				fail("ConsumesFor wrong", fmt.Sprintf("%s %s: got %v want %v", e.method, e.path, g, setOf(expC)))
			}
			expP := strList(e.op["produces"])
			if len(expP) == 0 {
				expP = strList(doc["produces"])
			}
			if g := an.ProducesFor(op); !sameMultiset(g, setOf(expP)) {
				fail("ProducesFor wrong", fmt.Sprintf("%s %s: got %v want %v", e.method, e.path, g, setOf(expP)))
			}
			expR := refSecurity(doc, e.op)
			gotR := an.SecurityRequirementsFor(op)
			if g := normReqs(gotR); !reflect.DeepEqual(g, expR) && !(len(g) == 0 && len(expR) == 0) {
				_, declared := e.op["security"]
				fail(fmt.Sprintf("SecurityRequirementsFor wrong (operation declares security: %v, empty: %v)", declared, declared && len(asArr(e.op["security"])) == 0),
					fmt.Sprintf("%s %s: got %v want %v", e.method, e.path, g, expR))
			}
			expD := map[string]any{}
			for _, rs := range expR {
				for _, r := range rs {
					if d, ok := secDefs[r.Name]; ok && r.Name != "" {
						expD[r.Name] = d
					}
				}
			}
			gotD := an.SecurityDefinitionsFor(op)
			gd := map[string]any{}
			for k, v := range gotD {
				gd[k] = h.ToJSON(h.Marshal(v))
			}
			if !reflect.DeepEqual(gd, expD) {
				fail("SecurityDefinitionsFor wrong", fmt.Sprintf("%s %s: got %v want %v", e.method, e.path, gd, expD))
			}
			for _, rs := range gotR {
				exp1 := map[string]any{}
				for _, r := range rs {
					if d, ok := secDefs[r.Name]; ok {
						exp1[r.Name] = d
					}
				}
				g1 := map[string]any{}
				for k, v := range an.SecurityDefinitionsForRequirements(rs) {
					g1[k] = h.ToJSON(h.Marshal(v))
				}
				if !reflect.DeepEqual(g1, exp1) {
					fail("SecurityDefinitionsForRequirements wrong", fmt.Sprintf("got %v want %v", g1, exp1))
				}
			}
			fmt.Fprintf(&sb, "%s %s c=%v p=%v s=%v;", e.method, e.path, setOf(expC), setOf(expP), expR)
		}
	})
	if o.Crashed() {
		return "crash in lookups at " + o.PanicFrame, o.Panic, nontrivial, "crash"
	}
	return sig, what, nontrivial, "ops:" + sb.String()
}

var _ = spec.Swagger{}

func init() {
	register(&Check{ID: "C14", Run: func(c *Ctx) {
		t := 3
		if c.Thorough() {
			t = 4
		}
		c.Bounds["input_deviations"] = t
		c.Bounds["full_tables"] = "consumes doc x op (16), produces doc x op (16), security doc x op x definitions (108) on the probe operation under each of the 7 methods"
		run := func(dj string, desc any) {
			nt := false
			for _, pol := range []mcrt.Policy{mcrt.Asc, mcrt.Desc} {
				c.Begin(&Violation{Signature: "fatal crash of the process", Generator: "c14", Input: J{"doc": json.RawMessage(dj)}, Env: J{"policy": int(pol)}})
				sig, what, nontrivial, outcome := c14Check(dj, pol)
				if outcome == "" && sig == "" {
					c.Count("not_loadable", 1)
					if c.Counters["not_loadable"] < 3 {
						c.Notes = append(c.Notes, "not loadable: "+dj)
					}
					continue
				}
				c.Execs++
				c.Validated++
				c.Outcome(hashStr(outcome))
				nt = nt || nontrivial
				if sig != "" {
					c.Violate(&Violation{Signature: sig, What: what, Generator: "c14", Input: J{"doc": json.RawMessage(dj), "choices": desc}, Env: J{"policy": int(pol)}})
				}
			}
			if nt {
				c.NonTrivial++
				c.Sample(J{"doc": json.RawMessage(dj)})
			}
		}
		e := mcx.New()
		e.Bound[mcx.INPUT] = t
		var k int64
		var doc J
		e.Run(func(x *mcx.Exec) { doc = c14Gen(x) }, func(x *mcx.Exec) bool {
			k++
			if !c.Mine(k - 1) {
				return true
			}
			c.ChoicePoints += int64(len(x.Points))
			run(mustJSON(doc), x.Choices())
			return !c.Expired()
		})
		// full decision tables of the precedence rules, with the probe operation under each method
		for _, m := range methods7 {
			table := func(mk func(doc, op J, i, j, l int), ni, nj, nl int) {
				for i := 0; i < ni; i++ {
					for j := 0; j < nj; j++ {
						for l := 0; l < nl; l++ {
							k++
							if !c.Mine(k - 1) {
								continue
							}
							op := J{"responses": J{"200": J{"description": "ok"}}, "operationId": "probe"}
							d := J{"swagger": "2.0", "info": J{"title": "t", "version": "1"}, "paths": J{"/a": J{m: op}, "/b/{id}": J{"get": J{"responses": J{"200": J{"description": "ok"}}}}}}
							mk(d, op, i, j, l)
							run(mustJSON(d), []int{i, j, l})
						}
					}
				}
			}
			set := func(o J, key string, v any) {
				if v != nil {
					o[key] = v
				}
			}
			table(func(d, op J, i, j, l int) { set(d, "consumes", c14Media[i]); set(op, "consumes", c14Media[j]) }, len(c14Media), len(c14Media), 1)
			table(func(d, op J, i, j, l int) { set(d, "produces", c14Media[i]); set(op, "produces", c14Media[j]) }, len(c14Media), len(c14Media), 1)
			table(func(d, op J, i, j, l int) {
				set(d, "security", c14Security[i])
				set(op, "security", c14Security[j])
				set(d, "securityDefinitions", c14SecDefs[l])
			}, len(c14Security), len(c14Security), len(c14SecDefs))
		}
	}, Replay: replayDoc(c14Check)})
}

package mcrt

import (
	"fmt"
	"sync"
)

// Cooperative scheduler: goroutines started with Go run one at a time; they hand control back at
// every scheduling point (start, end, and every operation of the mcsync / mcatomic shims).

// SchedChooser picks the goroutine to run next among the enabled ones (index into enabled; 0 is the
// goroutine that was running if it is still enabled).
type SchedChooser func(enabled []int, running int) int

// Sched is one controlled concurrent execution.
type Sched struct {
	mu       sync.Mutex
	threads  []*thread
	cur      int
	choose   SchedChooser
	Trace    []int // goroutine chosen at each scheduling decision
	Points   int
	dead     bool
	Deadlock bool
}

type thread struct {
	id      int
	resume  chan struct{}
	yielded chan struct{}
	done    bool
	blocked func() bool // non-nil: the thread waits until it returns false
	panicV  any
}

// ActiveSched is the scheduler of the execution in progress (nil: free running, shims behave like sync).
var ActiveSched *Sched

// NewSched creates a scheduler.
func NewSched(choose SchedChooser) *Sched { return &Sched{choose: choose, cur: -1} }

// Go registers a goroutine body; it starts when Run is called.
func (s *Sched) Go(body func()) {
	t := &thread{id: len(s.threads), resume: make(chan struct{}), yielded: make(chan struct{})}
	s.threads = append(s.threads, t)
	go func() {
		<-t.resume
		defer func() {
			if r := recover(); r != nil {
				t.panicV = r
			}
			t.done = true
			t.yielded <- struct{}{}
		}()
		body()
	}()
}

// Run executes the goroutines under the chooser until all are done or none is enabled (deadlock).
func (s *Sched) Run() {
	ActiveSched = s
	defer func() { ActiveSched = nil }()
	for {
		var enabled []int
		if s.cur >= 0 && !s.threads[s.cur].done && (s.threads[s.cur].blocked == nil || !s.threads[s.cur].blocked()) {
			enabled = append(enabled, s.cur)
		}
		allDone := true
		for _, t := range s.threads {
			if t.done {
				continue
			}
			allDone = false
			if t.id != s.cur && (t.blocked == nil || !t.blocked()) {
				enabled = append(enabled, t.id)
			}
		}
		if allDone {
			return
		}
		if len(enabled) == 0 {
			s.Deadlock = true
			return
		}
		pick := enabled[0]
		if len(enabled) > 1 {
			pick = enabled[s.choose(enabled, s.cur)]
		}
		s.Trace = append(s.Trace, pick)
		s.cur = pick
		t := s.threads[pick]
		t.blocked = nil
		t.resume <- struct{}{}
		<-t.yielded
	}
}

// Panics returns the panics raised by the goroutines.
func (s *Sched) Panics() []string {
	var out []string
	for _, t := range s.threads {
		if t.panicV != nil {
			out = append(out, fmt.Sprint(t.panicV))
		}
	}
	return out
}

// Point is a scheduling point of the running goroutine.
func Point() {
	s := ActiveSched
	if s == nil {
		Cur.SyncOps++ // counted even outside a controlled execution (single goroutine)
		return
	}
	s.Points++
	Cur.SyncOps++
	t := s.threads[s.cur]
	t.yielded <- struct{}{}
	<-t.resume
}

// Block is a scheduling point at which the running goroutine waits until cond() is false.
func Block(cond func() bool) {
	s := ActiveSched
	if s == nil {
		return
	}
	s.Points++
	Cur.SyncOps++
	t := s.threads[s.cur]
	t.blocked = cond
	t.yielded <- struct{}{}
	<-t.resume
}

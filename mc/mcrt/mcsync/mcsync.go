// Package mcsync replaces package sync in instrumented code: every operation is a scheduling point of
// the cooperative scheduler (mcrt.Sched); blocking is modelled. Outside a controlled execution the
// types behave like their sync counterparts.
package mcsync

import (
	"sync"

	"verif/mc/mcrt"
)

// free reports that no controlled execution is in progress; the operation is still counted.
func free() bool {
	if mcrt.ActiveSched == nil {
		mcrt.Point()
		return true
	}
	return false
}

// Locker is sync.Locker.
type Locker = sync.Locker

// Mutex replaces sync.Mutex.
type Mutex struct {
	real   sync.Mutex
	locked bool
}

// Lock acquires the mutex.
func (m *Mutex) Lock() {
	if free() {
		m.real.Lock()
		return
	}
	mcrt.Point()
	if m.locked {
		mcrt.Block(func() bool { return m.locked })
	}
	m.locked = true
}

// TryLock tries to acquire the mutex.
func (m *Mutex) TryLock() bool {
	if free() {
		return m.real.TryLock()
	}
	mcrt.Point()
	if m.locked {
		return false
	}
	m.locked = true
	return true
}

// Unlock releases the mutex.
func (m *Mutex) Unlock() {
	if free() {
		m.real.Unlock()
		return
	}
	if !m.locked {
		panic("mcsync: unlock of unlocked mutex")
	}
	m.locked = false
	mcrt.Point()
}

// RWMutex replaces sync.RWMutex.
type RWMutex struct {
	real    sync.RWMutex
	writer  bool
	readers int
}

// Lock acquires the write lock.
func (m *RWMutex) Lock() {
	if free() {
		m.real.Lock()
		return
	}
	mcrt.Point()
	if m.writer || m.readers > 0 {
		mcrt.Block(func() bool { return m.writer || m.readers > 0 })
	}
	m.writer = true
}

// Unlock releases the write lock.
func (m *RWMutex) Unlock() {
	if free() {
		m.real.Unlock()
		return
	}
	m.writer = false
	mcrt.Point()
}

// RLock acquires a read lock.
func (m *RWMutex) RLock() {
	if free() {
		m.real.RLock()
		return
	}
	mcrt.Point()
	if m.writer {
		mcrt.Block(func() bool { return m.writer })
	}
	m.readers++
}

// RUnlock releases a read lock.
func (m *RWMutex) RUnlock() {
	if free() {
		m.real.RUnlock()
		return
	}
	m.readers--
	mcrt.Point()
}

// RLocker returns a Locker for the read side.
func (m *RWMutex) RLocker() Locker { return (*rlocker)(m) }

type rlocker RWMutex

func (r *rlocker) Lock()   { (*RWMutex)(r).RLock() }
func (r *rlocker) Unlock() { (*RWMutex)(r).RUnlock() }

// Once replaces sync.Once.
type Once struct {
	real    sync.Once
	done    bool
	running bool
}

// Do calls f once.
func (o *Once) Do(f func()) {
	if free() {
		o.real.Do(f)
		return
	}
	mcrt.Point()
	if o.done {
		return
	}
	if o.running {
		mcrt.Block(func() bool { return o.running })
		return
	}
	o.running = true
	defer func() {
		o.done, o.running = true, false
		mcrt.Point()
	}()
	f()
}

// WaitGroup replaces sync.WaitGroup.
type WaitGroup struct {
	real sync.WaitGroup
	n    int
}

// Add adds delta.
func (w *WaitGroup) Add(delta int) {
	if free() {
		w.real.Add(delta)
		return
	}
	w.n += delta
	mcrt.Point()
}

// Done decrements.
func (w *WaitGroup) Done() { w.Add(-1) }

// Wait blocks until the counter is zero.
func (w *WaitGroup) Wait() {
	if free() {
		w.real.Wait()
		return
	}
	mcrt.Point()
	if w.n > 0 {
		mcrt.Block(func() bool { return w.n > 0 })
	}
}

// Map replaces sync.Map (operations are scheduling points).
type Map struct{ real sync.Map }

func (m *Map) Load(k any) (any, bool)           { mcrt.Point(); return m.real.Load(k) }
func (m *Map) Store(k, v any)                   { mcrt.Point(); m.real.Store(k, v) }
func (m *Map) LoadOrStore(k, v any) (any, bool) { mcrt.Point(); return m.real.LoadOrStore(k, v) }
func (m *Map) LoadAndDelete(k any) (any, bool)  { mcrt.Point(); return m.real.LoadAndDelete(k) }
func (m *Map) Delete(k any)                     { mcrt.Point(); m.real.Delete(k) }
func (m *Map) Range(f func(k, v any) bool)      { mcrt.Point(); m.real.Range(f) }

// Pool replaces sync.Pool.
type Pool = sync.Pool

// OnceFunc replaces sync.OnceFunc.
func OnceFunc(f func()) func() {
	var o Once
	return func() { o.Do(f) }
}

// OnceValue replaces sync.OnceValue.
func OnceValue[T any](f func() T) func() T {
	var o Once
	var v T
	return func() T {
		o.Do(func() { v = f() })
		return v
	}
}

// OnceValues replaces sync.OnceValues.
func OnceValues[T1, T2 any](f func() (T1, T2)) func() (T1, T2) {
	var o Once
	var v1 T1
	var v2 T2
	return func() (T1, T2) {
		o.Do(func() { v1, v2 = f() })
		return v1, v2
	}
}

// TryLock tries to acquire the write lock.
func (m *RWMutex) TryLock() bool {
	if free() {
		return m.real.TryLock()
	}
	mcrt.Point()
	if m.writer || m.readers > 0 {
		return false
	}
	m.writer = true
	return true
}

// TryRLock tries to acquire a read lock.
func (m *RWMutex) TryRLock() bool {
	if free() {
		return m.real.TryRLock()
	}
	mcrt.Point()
	if m.writer {
		return false
	}
	m.readers++
	return true
}

func (m *Map) Swap(k, v any) (any, bool)       { mcrt.Point(); return m.real.Swap(k, v) }
func (m *Map) CompareAndSwap(k, o, n any) bool { mcrt.Point(); return m.real.CompareAndSwap(k, o, n) }
func (m *Map) CompareAndDelete(k, o any) bool  { mcrt.Point(); return m.real.CompareAndDelete(k, o) }
func (m *Map) Clear()                          { mcrt.Point(); m.real.Clear() }

// Cond replaces sync.Cond: Wait releases L, blocks until a later Signal/Broadcast, then re-acquires L.
type Cond struct {
	L       Locker
	real    *sync.Cond
	waiters []*bool
}

// NewCond replaces sync.NewCond.
func NewCond(l Locker) *Cond { return &Cond{L: l} }

func (c *Cond) Wait() {
	if free() {
		if c.real == nil {
			c.real = sync.NewCond(c.L)
		}
		c.real.Wait()
		return
	}
	waiting := true
	c.waiters = append(c.waiters, &waiting)
	c.L.Unlock()
	mcrt.Block(func() bool { return waiting })
	c.L.Lock()
}

func (c *Cond) Signal() {
	if free() {
		if c.real != nil {
			c.real.Signal()
		}
		return
	}
	mcrt.Point()
	if len(c.waiters) > 0 {
		*c.waiters[0] = false
		c.waiters = c.waiters[1:]
	}
}

func (c *Cond) Broadcast() {
	if free() {
		if c.real != nil {
			c.real.Broadcast()
		}
		return
	}
	mcrt.Point()
	for _, w := range c.waiters {
		*w = false
	}
	c.waiters = nil
}

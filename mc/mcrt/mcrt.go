// Package mcrt is the runtime that instrumented code (package analysis, its
// internal packages and the scratch copy of go-openapi/spec) calls instead of
// ranging over Go maps directly. It puts the iteration order of every map
// under the control of the explorer. It only depends on the standard library.
package mcrt

import (
	"fmt"
	"reflect"
	"sort"
	"strconv"
)

// Policy is the base order of map iterations.
type Policy int

const (
	// Asc iterates keys in ascending order and does not produce entries inserted during the iteration.
	Asc Policy = iota
	// Desc iterates keys in descending order and produces entries inserted during the iteration (at the end).
	Desc
)

// Chooser receives the order decision of one map-iteration execution.
// n is the number of admissible orders (>= 2); 0 must mean "base policy order".
type Chooser interface {
	ChooseOrder(site int, keys []string, n int) int
	ChooseNewKey(site int, key string) int // 0: default of the policy, 1: the opposite
}

// Env is the environment of the execution in progress (single goroutine, or goroutines
// serialized by the cooperative scheduler).
type Env struct {
	Policy  Policy
	Chooser Chooser // nil: never deviate
	Steps   int     // number of map iterations started
	Horizon int     // 0: none
	Sites   map[int]int
	// SyncOps counts synchronisation operations executed through mcsync.
	SyncOps int
	// Depth is the current call depth of instrumented functions.
	Depth int
	// Work counts function entries and loop iterations of the instrumented analysis module: a loop that
	// spins without iterating a map and without recursing still makes progress on this counter.
	Work int
}

// WorkLimit is the number of function entries + loop iterations of instrumented code beyond which an execution
// is declared divergent (normal executions of the bounded inputs stay below 1% of it; see evidence notes).
const WorkLimit = 400_000

// MaxWork is the largest Work value seen in a finished execution of this process (reported in the evidence).
var MaxWork int

func work(site int) {
	e := Cur
	e.Work++
	if e.Work > WorkLimit && e.Horizon > 0 {
		e.Work = 0
		panic(&HorizonError{Site: site, Steps: -2})
	}
}

// Loop is called at the start of every iteration of every loop of the instrumented analysis module.
func Loop(site int) { work(site) }

// DepthLimit is the call depth of instrumented functions beyond which an execution is declared divergent
// (unbounded recursion), long before the goroutine stack overflows.
const DepthLimit = 4000

// Enter is called at the entry of every instrumented function.
func Enter(site int) {
	work(site)
	e := Cur
	e.Depth++
	if e.Depth > DepthLimit && e.Horizon > 0 {
		e.Depth = 0
		panic(&HorizonError{Site: site, Steps: -1})
	}
}

// Leave is deferred by every instrumented function.
func Leave() {
	if Cur.Depth > 0 {
		Cur.Depth--
	}
}

// Cur is the environment instrumented code reports to. Never nil.
var Cur = &Env{}

// Reset installs a fresh environment.
func Reset(p Policy, c Chooser, horizon int) *Env {
	if Cur.Work > MaxWork {
		MaxWork = Cur.Work
	}
	Cur = &Env{Policy: p, Chooser: c, Horizon: horizon}
	return Cur
}

// HorizonError is the sentinel panic raised when an execution exceeds the step horizon.
type HorizonError struct {
	Site  int
	Steps int
}

func (h *HorizonError) Error() string {
	if h.Steps == -2 {
		return fmt.Sprintf("mcrt: work limit exceeded (%d function entries and loop iterations: a loop that never ends) at site %d", WorkLimit, h.Site)
	}
	if h.Steps < 0 {
		return fmt.Sprintf("mcrt: call depth limit exceeded (unbounded recursion) at site %d", h.Site)
	}
	return fmt.Sprintf("mcrt: step horizon exceeded (%d map iterations), last site %d", h.Steps, h.Site)
}

func step(site int) {
	e := Cur
	e.Steps++
	if e.Horizon > 0 && e.Steps > e.Horizon {
		panic(&HorizonError{Site: site, Steps: e.Steps})
	}
}

// Tick lets non-map loops (instrumented `for` without condition etc.) count against the horizon.
func Tick(site int) { step(site) }

// MaxFullPerm is the largest key count for which every permutation is an alternative.
const MaxFullPerm = 4

// NumOrders returns the number of admissible orders for n keys: n! up to MaxFullPerm,
// above it the 2n rotations of ascending and descending order.
func NumOrders(n int) int {
	if n <= 1 {
		return 1
	}
	if n <= MaxFullPerm {
		f := 1
		for i := 2; i <= n; i++ {
			f *= i
		}
		return f
	}
	return 2 * n
}

// Perm returns the idx-th admissible order of n sorted keys (as indexes into the ascending list)
// for the given base policy: idx 0 is the base order.
func Perm(p Policy, n, idx int) []int {
	base := make([]int, n)
	for i := range base {
		if p == Asc {
			base[i] = i
		} else {
			base[i] = n - 1 - i
		}
	}
	if idx == 0 {
		return base
	}
	if n <= MaxFullPerm {
		// idx-th permutation (lexicographic in terms of positions of base)
		avail := append([]int(nil), base...)
		out := make([]int, 0, n)
		f := 1
		for i := 2; i < n; i++ {
			f *= i
		}
		k := idx
		for i := n - 1; i >= 0; i-- {
			q := k / f
			k = k % f
			out = append(out, avail[q])
			avail = append(avail[:q], avail[q+1:]...)
			if i > 0 {
				f /= i
			}
		}
		return out
	}
	// rotations: idx in 1..n-1 rotate base by idx; idx in n..2n-1 rotate reversed base by idx-n
	src := base
	r := idx
	if idx >= n {
		src = make([]int, n)
		for i := range src {
			src[i] = base[n-1-i]
		}
		r = idx - n
	}
	out := make([]int, n)
	for i := range out {
		out[i] = src[(i+r)%n]
	}
	return out
}

func keyStrings[K comparable](keys []K) []string {
	if ks, ok := any(keys).([]string); ok {
		return ks
	}
	out := make([]string, len(keys))
	for i, k := range keys {
		switch v := any(k).(type) {
		case int:
			out[i] = strconv.Itoa(v)
		default:
			out[i] = fmt.Sprint(k)
		}
	}
	return out
}

func sortKeys[K comparable](keys []K) {
	switch ks := any(keys).(type) {
	case []string:
		sort.Strings(ks)
	case []int:
		sort.Ints(ks)
	default:
		rv := reflect.ValueOf(keys)
		if rv.Len() > 0 {
			switch rv.Index(0).Kind() {
			case reflect.String:
				sort.Slice(keys, func(i, j int) bool { return reflect.ValueOf(keys[i]).String() < reflect.ValueOf(keys[j]).String() })
				return
			case reflect.Int, reflect.Int8, reflect.Int16, reflect.Int32, reflect.Int64:
				sort.Slice(keys, func(i, j int) bool { return reflect.ValueOf(keys[i]).Int() < reflect.ValueOf(keys[j]).Int() })
				return
			}
		}
		sort.Slice(keys, func(i, j int) bool { return fmt.Sprint(keys[i]) < fmt.Sprint(keys[j]) })
	}
}

// Iter is a controlled iteration over a map.
type Iter[K comparable, V any] struct {
	m      map[K]V
	site   int
	keys   []K
	pos    int
	inTail bool
	seen   map[K]struct{}
	env    *Env
}

func newIter[K comparable, V any](site int, m map[K]V) *Iter[K, V] {
	step(site)
	it := &Iter[K, V]{m: m, site: site, env: Cur}
	n := len(m)
	if n == 0 {
		return it
	}
	keys := make([]K, 0, n)
	for k := range m {
		keys = append(keys, k)
	}
	if n > 1 {
		sortKeys(keys)
		e := Cur
		idx := 0
		if e.Chooser != nil {
			idx = e.Chooser.ChooseOrder(site, keyStrings(keys), NumOrders(n))
		}
		if idx != 0 || e.Policy != Asc {
			p := Perm(e.Policy, n, idx)
			nk := make([]K, n)
			for i, j := range p {
				nk[i] = keys[j]
			}
			keys = nk
		}
	}
	it.keys = keys
	return it
}

func (it *Iter[K, V]) next() (k K, v V, ok bool) {
	for {
		if it.pos < len(it.keys) {
			k = it.keys[it.pos]
			it.pos++
			if val, present := it.m[k]; present { // entries removed during the iteration are not produced
				return k, val, true
			}
			continue
		}
		// end of snapshot: entries inserted during the iteration may be produced or skipped (Go spec)
		if len(it.m) == 0 || it.env != Cur {
			return k, v, false
		}
		if it.seen == nil {
			it.seen = make(map[K]struct{}, len(it.keys))
		}
		for _, kk := range it.keys {
			it.seen[kk] = struct{}{}
		}
		var fresh []K
		for kk := range it.m {
			if _, s := it.seen[kk]; !s {
				fresh = append(fresh, kk)
			}
		}
		if len(fresh) == 0 {
			return k, v, false
		}
		sortKeys(fresh)
		e := Cur
		if e.Policy == Desc {
			for i, j := 0, len(fresh)-1; i < j; i, j = i+1, j-1 {
				fresh[i], fresh[j] = fresh[j], fresh[i]
			}
		}
		produce := e.Policy == Desc
		if e.Chooser != nil {
			if e.Chooser.ChooseNewKey(it.site, fmt.Sprint(fresh[0])) == 1 {
				produce = !produce
			}
		}
		if !produce {
			// mark them as seen so that they are not reconsidered
			for _, kk := range fresh {
				it.seen[kk] = struct{}{}
			}
			it.keys = nil
			it.pos = 0
			return k, v, false
		}
		it.keys = fresh
		it.pos = 0
	}
}

// IterKV starts `for k, v := range m`.
func IterKV[K comparable, V any](site int, m map[K]V) (*Iter[K, V], K, V) {
	var k K
	var v V
	return newIter(site, m), k, v
}

// IterK starts `for k := range m`.
func IterK[K comparable, V any](site int, m map[K]V) (*Iter[K, V], K) {
	var k K
	return newIter(site, m), k
}

// IterV starts `for _, v := range m`.
func IterV[K comparable, V any](site int, m map[K]V) (*Iter[K, V], V) {
	var v V
	return newIter(site, m), v
}

// IterN starts `for range m` and `for k, v = range m` (assignment form).
func IterN[K comparable, V any](site int, m map[K]V) *Iter[K, V] {
	return newIter(site, m)
}

// NextKV advances `for k, v := range m`.
func (it *Iter[K, V]) NextKV(k *K, v *V) bool {
	kk, vv, ok := it.next()
	if ok {
		*k, *v = kk, vv
	}
	return ok
}

// NextK advances `for k := range m`.
func (it *Iter[K, V]) NextK(k *K) bool {
	kk, _, ok := it.next()
	if ok {
		*k = kk
	}
	return ok
}

// NextV advances `for _, v := range m`.
func (it *Iter[K, V]) NextV(v *V) bool {
	_, vv, ok := it.next()
	if ok {
		*v = vv
	}
	return ok
}

// Next advances `for range m`.
func (it *Iter[K, V]) Next() bool {
	_, _, ok := it.next()
	return ok
}

// MapIter replaces *reflect.MapIter.
type MapIter struct {
	m    reflect.Value
	keys []reflect.Value
	pos  int
	cur  reflect.Value
}

// MapRange replaces reflect.Value.MapRange.
func MapRange(site int, m reflect.Value) *MapIter {
	return &MapIter{m: m, keys: MapKeys(site, m), pos: -1}
}

// MapKeys replaces reflect.Value.MapKeys: the keys in controlled order.
func MapKeys(site int, m reflect.Value) []reflect.Value {
	step(site)
	keys := m.MapKeys()
	n := len(keys)
	if n <= 1 {
		return keys
	}
	strs := make([]string, n)
	idxs := make([]int, n)
	for i, k := range keys {
		idxs[i] = i
		if k.Kind() == reflect.String {
			strs[i] = k.String()
		} else {
			strs[i] = fmt.Sprint(k.Interface())
		}
	}
	sort.Slice(idxs, func(a, b int) bool { return strs[idxs[a]] < strs[idxs[b]] })
	sorted := make([]reflect.Value, n)
	sstr := make([]string, n)
	for i, j := range idxs {
		sorted[i] = keys[j]
		sstr[i] = strs[j]
	}
	e := Cur
	idx := 0
	if e.Chooser != nil {
		idx = e.Chooser.ChooseOrder(site, sstr, NumOrders(n))
	}
	p := Perm(e.Policy, n, idx)
	out := make([]reflect.Value, n)
	for i, j := range p {
		out[i] = sorted[j]
	}
	return out
}

// Next advances the iterator.
func (it *MapIter) Next() bool {
	for {
		it.pos++
		if it.pos >= len(it.keys) {
			return false
		}
		if it.m.MapIndex(it.keys[it.pos]).IsValid() {
			return true
		}
	}
}

// Key returns the current key.
func (it *MapIter) Key() reflect.Value { return it.keys[it.pos] }

// Value returns the current value.
func (it *MapIter) Value() reflect.Value { return it.m.MapIndex(it.keys[it.pos]) }

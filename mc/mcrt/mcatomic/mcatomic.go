// Package mcatomic replaces sync/atomic in instrumented code: every operation is a scheduling point.
package mcatomic

import (
	"sync/atomic"
	"unsafe"

	"verif/mc/mcrt"
)

func AddInt32(addr *int32, delta int32) int32     { mcrt.Point(); return atomic.AddInt32(addr, delta) }
func AddInt64(addr *int64, delta int64) int64     { mcrt.Point(); return atomic.AddInt64(addr, delta) }
func AddUint32(addr *uint32, delta uint32) uint32 { mcrt.Point(); return atomic.AddUint32(addr, delta) }
func AddUint64(addr *uint64, delta uint64) uint64 { mcrt.Point(); return atomic.AddUint64(addr, delta) }
func LoadInt32(addr *int32) int32                 { mcrt.Point(); return atomic.LoadInt32(addr) }
func LoadInt64(addr *int64) int64                 { mcrt.Point(); return atomic.LoadInt64(addr) }
func LoadUint32(addr *uint32) uint32              { mcrt.Point(); return atomic.LoadUint32(addr) }
func LoadUint64(addr *uint64) uint64              { mcrt.Point(); return atomic.LoadUint64(addr) }
func StoreInt32(addr *int32, v int32)             { mcrt.Point(); atomic.StoreInt32(addr, v) }
func StoreInt64(addr *int64, v int64)             { mcrt.Point(); atomic.StoreInt64(addr, v) }
func StoreUint32(addr *uint32, v uint32)          { mcrt.Point(); atomic.StoreUint32(addr, v) }
func StoreUint64(addr *uint64, v uint64)          { mcrt.Point(); atomic.StoreUint64(addr, v) }
func CompareAndSwapInt32(addr *int32, o, n int32) bool {
	mcrt.Point()
	return atomic.CompareAndSwapInt32(addr, o, n)
}
func CompareAndSwapInt64(addr *int64, o, n int64) bool {
	mcrt.Point()
	return atomic.CompareAndSwapInt64(addr, o, n)
}
func CompareAndSwapUint32(addr *uint32, o, n uint32) bool {
	mcrt.Point()
	return atomic.CompareAndSwapUint32(addr, o, n)
}
func LoadPointer(addr *unsafe.Pointer) unsafe.Pointer     { mcrt.Point(); return atomic.LoadPointer(addr) }
func StorePointer(addr *unsafe.Pointer, v unsafe.Pointer) { mcrt.Point(); atomic.StorePointer(addr, v) }

// Bool replaces atomic.Bool.
type Bool struct{ v atomic.Bool }

func (b *Bool) Load() bool                    { mcrt.Point(); return b.v.Load() }
func (b *Bool) Store(x bool)                  { mcrt.Point(); b.v.Store(x) }
func (b *Bool) Swap(x bool) bool              { mcrt.Point(); return b.v.Swap(x) }
func (b *Bool) CompareAndSwap(o, n bool) bool { mcrt.Point(); return b.v.CompareAndSwap(o, n) }

// Int32 replaces atomic.Int32.
type Int32 struct{ v atomic.Int32 }

func (i *Int32) Load() int32                    { mcrt.Point(); return i.v.Load() }
func (i *Int32) Store(x int32)                  { mcrt.Point(); i.v.Store(x) }
func (i *Int32) Add(d int32) int32              { mcrt.Point(); return i.v.Add(d) }
func (i *Int32) CompareAndSwap(o, n int32) bool { mcrt.Point(); return i.v.CompareAndSwap(o, n) }

// Int64 replaces atomic.Int64.
type Int64 struct{ v atomic.Int64 }

func (i *Int64) Load() int64                    { mcrt.Point(); return i.v.Load() }
func (i *Int64) Store(x int64)                  { mcrt.Point(); i.v.Store(x) }
func (i *Int64) Add(d int64) int64              { mcrt.Point(); return i.v.Add(d) }
func (i *Int64) CompareAndSwap(o, n int64) bool { mcrt.Point(); return i.v.CompareAndSwap(o, n) }

// Uint32 replaces atomic.Uint32.
type Uint32 struct{ v atomic.Uint32 }

func (i *Uint32) Load() uint32                    { mcrt.Point(); return i.v.Load() }
func (i *Uint32) Store(x uint32)                  { mcrt.Point(); i.v.Store(x) }
func (i *Uint32) Add(d uint32) uint32             { mcrt.Point(); return i.v.Add(d) }
func (i *Uint32) CompareAndSwap(o, n uint32) bool { mcrt.Point(); return i.v.CompareAndSwap(o, n) }

// Value replaces atomic.Value.
type Value struct{ v atomic.Value }

func (x *Value) Load() any     { mcrt.Point(); return x.v.Load() }
func (x *Value) Store(val any) { mcrt.Point(); x.v.Store(val) }

// Pointer replaces atomic.Pointer[T].
type Pointer[T any] struct{ v atomic.Pointer[T] }

func (p *Pointer[T]) Load() *T                    { mcrt.Point(); return p.v.Load() }
func (p *Pointer[T]) Store(x *T)                  { mcrt.Point(); p.v.Store(x) }
func (p *Pointer[T]) Swap(x *T) *T                { mcrt.Point(); return p.v.Swap(x) }
func (p *Pointer[T]) CompareAndSwap(o, n *T) bool { mcrt.Point(); return p.v.CompareAndSwap(o, n) }

// ---- the rest of the sync/atomic API (functions) ----

func AddUintptr(addr *uintptr, delta uintptr) uintptr {
	mcrt.Point()
	return atomic.AddUintptr(addr, delta)
}
func LoadUintptr(addr *uintptr) uintptr            { mcrt.Point(); return atomic.LoadUintptr(addr) }
func StoreUintptr(addr *uintptr, v uintptr)        { mcrt.Point(); atomic.StoreUintptr(addr, v) }
func SwapInt32(addr *int32, n int32) int32         { mcrt.Point(); return atomic.SwapInt32(addr, n) }
func SwapInt64(addr *int64, n int64) int64         { mcrt.Point(); return atomic.SwapInt64(addr, n) }
func SwapUint32(addr *uint32, n uint32) uint32     { mcrt.Point(); return atomic.SwapUint32(addr, n) }
func SwapUint64(addr *uint64, n uint64) uint64     { mcrt.Point(); return atomic.SwapUint64(addr, n) }
func SwapUintptr(addr *uintptr, n uintptr) uintptr { mcrt.Point(); return atomic.SwapUintptr(addr, n) }
func SwapPointer(addr *unsafe.Pointer, n unsafe.Pointer) unsafe.Pointer {
	mcrt.Point()
	return atomic.SwapPointer(addr, n)
}
func CompareAndSwapUint64(addr *uint64, o, n uint64) bool {
	mcrt.Point()
	return atomic.CompareAndSwapUint64(addr, o, n)
}
func CompareAndSwapUintptr(addr *uintptr, o, n uintptr) bool {
	mcrt.Point()
	return atomic.CompareAndSwapUintptr(addr, o, n)
}
func CompareAndSwapPointer(addr *unsafe.Pointer, o, n unsafe.Pointer) bool {
	mcrt.Point()
	return atomic.CompareAndSwapPointer(addr, o, n)
}
func AndInt32(addr *int32, mask int32) int32     { mcrt.Point(); return atomic.AndInt32(addr, mask) }
func AndUint32(addr *uint32, mask uint32) uint32 { mcrt.Point(); return atomic.AndUint32(addr, mask) }
func AndInt64(addr *int64, mask int64) int64     { mcrt.Point(); return atomic.AndInt64(addr, mask) }
func AndUint64(addr *uint64, mask uint64) uint64 { mcrt.Point(); return atomic.AndUint64(addr, mask) }
func AndUintptr(addr *uintptr, mask uintptr) uintptr {
	mcrt.Point()
	return atomic.AndUintptr(addr, mask)
}
func OrInt32(addr *int32, mask int32) int32     { mcrt.Point(); return atomic.OrInt32(addr, mask) }
func OrUint32(addr *uint32, mask uint32) uint32 { mcrt.Point(); return atomic.OrUint32(addr, mask) }
func OrInt64(addr *int64, mask int64) int64     { mcrt.Point(); return atomic.OrInt64(addr, mask) }
func OrUint64(addr *uint64, mask uint64) uint64 { mcrt.Point(); return atomic.OrUint64(addr, mask) }
func OrUintptr(addr *uintptr, mask uintptr) uintptr {
	mcrt.Point()
	return atomic.OrUintptr(addr, mask)
}

// ---- ... and types ----

func (i *Int32) Swap(x int32) int32    { mcrt.Point(); return i.v.Swap(x) }
func (i *Int32) And(m int32) int32     { mcrt.Point(); return i.v.And(m) }
func (i *Int32) Or(m int32) int32      { mcrt.Point(); return i.v.Or(m) }
func (i *Int64) Swap(x int64) int64    { mcrt.Point(); return i.v.Swap(x) }
func (i *Int64) And(m int64) int64     { mcrt.Point(); return i.v.And(m) }
func (i *Int64) Or(m int64) int64      { mcrt.Point(); return i.v.Or(m) }
func (i *Uint32) Swap(x uint32) uint32 { mcrt.Point(); return i.v.Swap(x) }
func (i *Uint32) And(m uint32) uint32  { mcrt.Point(); return i.v.And(m) }
func (i *Uint32) Or(m uint32) uint32   { mcrt.Point(); return i.v.Or(m) }

// Uint64 replaces atomic.Uint64.
type Uint64 struct{ v atomic.Uint64 }

func (i *Uint64) Load() uint64                    { mcrt.Point(); return i.v.Load() }
func (i *Uint64) Store(x uint64)                  { mcrt.Point(); i.v.Store(x) }
func (i *Uint64) Add(d uint64) uint64             { mcrt.Point(); return i.v.Add(d) }
func (i *Uint64) Swap(x uint64) uint64            { mcrt.Point(); return i.v.Swap(x) }
func (i *Uint64) CompareAndSwap(o, n uint64) bool { mcrt.Point(); return i.v.CompareAndSwap(o, n) }
func (i *Uint64) And(m uint64) uint64             { mcrt.Point(); return i.v.And(m) }
func (i *Uint64) Or(m uint64) uint64              { mcrt.Point(); return i.v.Or(m) }

// Uintptr replaces atomic.Uintptr.
type Uintptr struct{ v atomic.Uintptr }

func (i *Uintptr) Load() uintptr                    { mcrt.Point(); return i.v.Load() }
func (i *Uintptr) Store(x uintptr)                  { mcrt.Point(); i.v.Store(x) }
func (i *Uintptr) Add(d uintptr) uintptr            { mcrt.Point(); return i.v.Add(d) }
func (i *Uintptr) Swap(x uintptr) uintptr           { mcrt.Point(); return i.v.Swap(x) }
func (i *Uintptr) CompareAndSwap(o, n uintptr) bool { mcrt.Point(); return i.v.CompareAndSwap(o, n) }
func (i *Uintptr) And(m uintptr) uintptr            { mcrt.Point(); return i.v.And(m) }
func (i *Uintptr) Or(m uintptr) uintptr             { mcrt.Point(); return i.v.Or(m) }

func (x *Value) Swap(n any) any               { mcrt.Point(); return x.v.Swap(n) }
func (x *Value) CompareAndSwap(o, n any) bool { mcrt.Point(); return x.v.CompareAndSwap(o, n) }

// Package mcatomic replaces sync/atomic in instrumented code: every operation is a scheduling point.
package mcatomic

import (
	"sync/atomic"
	"unsafe"

	"verif/mc/mcrt"
)

func AddInt32(addr *int32, delta int32) int32     { mcrt.Point(); return atomic.AddInt32(addr, delta) }
func AddInt64(addr *int64, delta int64) int64     { mcrt.Point(); return atomic.AddInt64(addr, delta) }
func AddUint32(addr *uint32, delta uint32) uint32 { mcrt.Point(); return atomic.AddUint32(addr, delta) }
func AddUint64(addr *uint64, delta uint64) uint64 { mcrt.Point(); return atomic.AddUint64(addr, delta) }
func LoadInt32(addr *int32) int32                 { mcrt.Point(); return atomic.LoadInt32(addr) }
func LoadInt64(addr *int64) int64                 { mcrt.Point(); return atomic.LoadInt64(addr) }
func LoadUint32(addr *uint32) uint32              { mcrt.Point(); return atomic.LoadUint32(addr) }
func LoadUint64(addr *uint64) uint64              { mcrt.Point(); return atomic.LoadUint64(addr) }
func StoreInt32(addr *int32, v int32)             { mcrt.Point(); atomic.StoreInt32(addr, v) }
func StoreInt64(addr *int64, v int64)             { mcrt.Point(); atomic.StoreInt64(addr, v) }
func StoreUint32(addr *uint32, v uint32)          { mcrt.Point(); atomic.StoreUint32(addr, v) }
func StoreUint64(addr *uint64, v uint64)          { mcrt.Point(); atomic.StoreUint64(addr, v) }
func CompareAndSwapInt32(addr *int32, o, n int32) bool {
	mcrt.Point()
	return atomic.CompareAndSwapInt32(addr, o, n)
}
func CompareAndSwapInt64(addr *int64, o, n int64) bool {
	mcrt.Point()
	return atomic.CompareAndSwapInt64(addr, o, n)
}
func CompareAndSwapUint32(addr *uint32, o, n uint32) bool {
	mcrt.Point()
	return atomic.CompareAndSwapUint32(addr, o, n)
}
func LoadPointer(addr *unsafe.Pointer) unsafe.Pointer     { mcrt.Point(); return atomic.LoadPointer(addr) }
func StorePointer(addr *unsafe.Pointer, v unsafe.Pointer) { mcrt.Point(); atomic.StorePointer(addr, v) }

// Bool replaces atomic.Bool.
type Bool struct{ v atomic.Bool }

func (b *Bool) Load() bool                    { mcrt.Point(); return b.v.Load() }
func (b *Bool) Store(x bool)                  { mcrt.Point(); b.v.Store(x) }
func (b *Bool) Swap(x bool) bool              { mcrt.Point(); return b.v.Swap(x) }
func (b *Bool) CompareAndSwap(o, n bool) bool { mcrt.Point(); return b.v.CompareAndSwap(o, n) }

// Int32 replaces atomic.Int32.
type Int32 struct{ v atomic.Int32 }

func (i *Int32) Load() int32                    { mcrt.Point(); return i.v.Load() }
func (i *Int32) Store(x int32)                  { mcrt.Point(); i.v.Store(x) }
func (i *Int32) Add(d int32) int32              { mcrt.Point(); return i.v.Add(d) }
func (i *Int32) CompareAndSwap(o, n int32) bool { mcrt.Point(); return i.v.CompareAndSwap(o, n) }

// Int64 replaces atomic.Int64.
type Int64 struct{ v atomic.Int64 }

func (i *Int64) Load() int64                    { mcrt.Point(); return i.v.Load() }
func (i *Int64) Store(x int64)                  { mcrt.Point(); i.v.Store(x) }
func (i *Int64) Add(d int64) int64              { mcrt.Point(); return i.v.Add(d) }
func (i *Int64) CompareAndSwap(o, n int64) bool { mcrt.Point(); return i.v.CompareAndSwap(o, n) }

// Uint32 replaces atomic.Uint32.
type Uint32 struct{ v atomic.Uint32 }

func (i *Uint32) Load() uint32                    { mcrt.Point(); return i.v.Load() }
func (i *Uint32) Store(x uint32)                  { mcrt.Point(); i.v.Store(x) }
func (i *Uint32) Add(d uint32) uint32             { mcrt.Point(); return i.v.Add(d) }
func (i *Uint32) CompareAndSwap(o, n uint32) bool { mcrt.Point(); return i.v.CompareAndSwap(o, n) }

// Value replaces atomic.Value.
type Value struct{ v atomic.Value }

func (x *Value) Load() any     { mcrt.Point(); return x.v.Load() }
func (x *Value) Store(val any) { mcrt.Point(); x.v.Store(val) }

// Pointer replaces atomic.Pointer[T].
type Pointer[T any] struct{ v atomic.Pointer[T] }

func (p *Pointer[T]) Load() *T                    { mcrt.Point(); return p.v.Load() }
func (p *Pointer[T]) Store(x *T)                  { mcrt.Point(); p.v.Store(x) }
func (p *Pointer[T]) Swap(x *T) *T                { mcrt.Point(); return p.v.Swap(x) }
func (p *Pointer[T]) CompareAndSwap(o, n *T) bool { mcrt.Point(); return p.v.CompareAndSwap(o, n) }

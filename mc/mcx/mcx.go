// Package mcx is the choice-tree explorer: stateless depth-first search with
// prefix replay over a deterministic harness body that obtains every
// nondeterministic decision from Exec.Choose.
//
// An execution is one run of the body. Every decision point has a kind, a
// number of alternatives n and a label. Alternative 0 is the default (cost 0);
// any other alternative is a deviation whose cost is charged against the bound
// of its kind. The explorer enumerates every execution whose per-kind
// deviation cost is within the bounds. A replayed prefix that meets a point
// with a different (kind, n, label) than recorded is a hard error: it means
// that some nondeterminism is not owned by the explorer.
package mcx

import (
	"fmt"
)

// Kind of a choice point.
type Kind uint8

const (
	INPUT Kind = iota
	OPTION
	ORDER
	FAULT
	SCHED
	OP
	nKinds
)

var kindNames = [...]string{"INPUT", "OPTION", "ORDER", "FAULT", "SCHED", "OP"}

func (k Kind) String() string { return kindNames[k] }

// Unbounded is the bound value meaning "every alternative at every point".
const Unbounded = -1

// Point is one decision taken in an execution.
type Point struct {
	Kind   Kind
	N      int
	Label  string
	Choice int
	Costs  []int // nil: alternative 0 costs 0, any other costs 1
}

func (p *Point) cost(alt int) int {
	if p.Costs != nil {
		return p.Costs[alt]
	}
	if alt == 0 {
		return 0
	}
	return 1
}

// DivergenceError is raised (as a panic) when a replayed prefix does not meet
// the decision points it was recorded with.
type DivergenceError struct{ Msg string }

func (d *DivergenceError) Error() string { return "mcx: replay divergence: " + d.Msg }

// Exec is one execution in progress.
type Exec struct {
	forced []Forced
	Points []Point
	// Data is free for the body (observations of this execution).
	Data any
	// NoRecordLabels, when set, avoids keeping labels (saves memory on long runs)
	strict bool
}

// Forced is one element of a replay prefix. Kind/N/Label are checked when Check is set.
type Forced struct {
	Choice int
	Kind   Kind
	N      int
	Label  string
	Check  bool
}

// Choose returns the alternative taken at this point: the forced one while
// replaying the prefix, the default (0) afterwards.
func (x *Exec) Choose(kind Kind, n int, label string) int {
	return x.ChooseW(kind, n, label, nil)
}

// ChooseW is Choose with explicit deviation costs per alternative.
func (x *Exec) ChooseW(kind Kind, n int, label string, costs []int) int {
	if n <= 0 {
		panic(fmt.Sprintf("mcx: Choose with n=%d at %s", n, label))
	}
	i := len(x.Points)
	c := 0
	if i < len(x.forced) {
		f := x.forced[i]
		c = f.Choice
		if f.Check && (f.Kind != kind || f.N != n || f.Label != label) {
			panic(&DivergenceError{fmt.Sprintf("point %d: recorded (%s,%d,%q) but met (%s,%d,%q)", i, f.Kind, f.N, f.Label, kind, n, label)})
		}
		if c < 0 || c >= n {
			panic(&DivergenceError{fmt.Sprintf("point %d: forced choice %d out of range n=%d (%s %q)", i, c, n, kind, label)})
		}
	}
	x.Points = append(x.Points, Point{Kind: kind, N: n, Label: label, Choice: c, Costs: costs})
	return c
}

// Choices returns the list of choices taken.
func (x *Exec) Choices() []int {
	r := make([]int, len(x.Points))
	for i, p := range x.Points {
		r[i] = p.Choice
	}
	return r
}

// Deviations returns the points at which a non-default alternative was taken.
func (x *Exec) Deviations() []Point {
	var r []Point
	for _, p := range x.Points {
		if p.Choice != 0 {
			r = append(r, p)
		}
	}
	return r
}

// Stats of an exploration.
type Stats struct {
	Executions   int64
	ChoicePoints int64 // points with n >= 2 met, summed over executions
	MaxPoints    int
	Pruned       int64 // alternatives not taken because of a bound
	CapHit       bool
}

// Explorer enumerates executions.
type Explorer struct {
	// Bound per kind: maximal total deviation cost of that kind in one execution; Unbounded for no limit.
	Bound [nKinds]int
	// MaxExec, if > 0, caps the number of executions (CapHit is set when reached).
	MaxExec int64
	Stats   Stats
}

// New returns an explorer with every kind unbounded.
func New() *Explorer {
	e := &Explorer{}
	for i := range e.Bound {
		e.Bound[i] = Unbounded
	}
	return e
}

// frame is one pending execution: the prefix is points[:i] of the parent execution followed by alternative alt at
// point i. The parent's points are shared by all its successors (a materialised prefix per successor costs
// O(points^2 x alternatives) memory for one execution: gigabytes on long executions with two deviations).
type frame struct {
	points []Point
	i, alt int
	root   bool
}

func (f frame) prefix() []Forced {
	if f.root {
		return nil
	}
	np := make([]Forced, f.i+1)
	for k := 0; k < f.i; k++ {
		p := &f.points[k]
		np[k] = Forced{Choice: p.Choice, Kind: p.Kind, N: p.N, Label: p.Label, Check: true}
	}
	p := &f.points[f.i]
	np[f.i] = Forced{Choice: f.alt, Kind: p.Kind, N: p.N, Label: p.Label, Check: true}
	return np
}

// Run explores every execution of body within the bounds. after is called at
// the end of each execution (oracle); returning false stops the exploration.
func (e *Explorer) Run(body func(x *Exec), after func(x *Exec) bool) {
	stack := []frame{{root: true}}
	for len(stack) > 0 {
		fr := stack[len(stack)-1]
		stack = stack[:len(stack)-1]
		f := struct{ prefix []Forced }{fr.prefix()}
		if e.MaxExec > 0 && e.Stats.Executions >= e.MaxExec {
			e.Stats.CapHit = true
			return
		}
		x := &Exec{forced: f.prefix}
		body(x)
		if len(x.Points) < len(f.prefix) {
			panic(&DivergenceError{fmt.Sprintf("execution met %d points, prefix has %d", len(x.Points), len(f.prefix))})
		}
		e.Stats.Executions++
		if len(x.Points) > e.Stats.MaxPoints {
			e.Stats.MaxPoints = len(x.Points)
		}
		for _, p := range x.Points {
			if p.N >= 2 {
				e.Stats.ChoicePoints++
			}
		}
		if after != nil && !after(x) {
			return
		}
		// successors: deviate at each point after the prefix. Pushed in reverse so that
		// the exploration order is: earliest point first, smallest alternative first.
		var used [nKinds]int
		for i := 0; i < len(f.prefix) && i < len(x.Points); i++ {
			p := &x.Points[i]
			used[p.Kind] += p.cost(p.Choice)
		}
		type succ struct {
			i, alt int
		}
		var succs []succ
		for i := len(f.prefix); i < len(x.Points); i++ {
			p := &x.Points[i]
			b := e.Bound[p.Kind]
			for alt := 1; alt < p.N; alt++ {
				if b != Unbounded && used[p.Kind]+p.cost(alt) > b {
					e.Stats.Pruned++
					continue
				}
				succs = append(succs, succ{i, alt})
			}
			used[p.Kind] += p.cost(p.Choice) // choice is 0 here; cost may be non-zero with custom costs
		}
		for j := len(succs) - 1; j >= 0; j-- {
			s := succs[j]
			stack = append(stack, frame{points: x.Points, i: s.i, alt: s.alt})
		}
	}
}

// Replay runs body once with the given choices forced (unchecked labels) and defaults afterwards.
func Replay(choices []int, body func(x *Exec)) *Exec {
	f := make([]Forced, len(choices))
	for i, c := range choices {
		f[i] = Forced{Choice: c}
	}
	x := &Exec{forced: f}
	body(x)
	return x
}

// Command mcinstr rewrites, in place, the Go sources of a scratch copy of a module so that
// every iteration over a Go map (range statements, reflect MapRange/MapKeys) goes through
// verif/mc/mcrt, and (with -sync) every use of sync and sync/atomic goes through the
// cooperative-scheduler shims. It reports the sites it rewrote and the constructs it cannot control.
package main

import (
	"bytes"
	"encoding/json"
	"flag"
	"fmt"
	"go/ast"
	"go/format"
	"go/token"
	"go/types"
	"os"
	"path/filepath"
	"strconv"
	"strings"

	"golang.org/x/tools/go/ast/astutil"
	"golang.org/x/tools/go/packages"
)

type site struct {
	ID   int    `json:"id"`
	File string `json:"file"`
	Line int    `json:"line"`
	Func string `json:"func"`
	Kind string `json:"kind"`
}

type report struct {
	Sites        []site   `json:"sites"`
	Uncontrolled []string `json:"uncontrolled"`
	SyncImports  []string `json:"sync_imports"`
	Files        int      `json:"files"`
}

var (
	dir      = flag.String("dir", "", "module directory to rewrite in place")
	mcrtPath = flag.String("mcrt", "verif/mc/mcrt", "import path of the runtime")
	syncPath = flag.String("sync", "", "if set, import path prefix of the sync shims (sync -> <p>/mcsync, sync/atomic -> <p>/mcatomic)")
	base     = flag.Int("base", 0, "first site id")
	out      = flag.String("out", "", "report file (JSON)")
	strip    = flag.String("strip", "", "prefix stripped from file names in the report")
	label    = flag.String("label", "", "prefix added to file names in the report")
	depth    = flag.Bool("depth", false, "guard every function against unbounded recursion (mcrt.Enter/Leave)")
)

func main() {
	flag.Parse()
	cfg := &packages.Config{
		Dir:  *dir,
		Mode: packages.NeedName | packages.NeedFiles | packages.NeedCompiledGoFiles | packages.NeedSyntax | packages.NeedTypes | packages.NeedTypesInfo | packages.NeedImports | packages.NeedDeps,
	}
	pkgs, err := packages.Load(cfg, "./...")
	if err != nil {
		fatal("load: %v", err)
	}
	rep := &report{}
	next := *base
	for _, p := range pkgs {
		if len(p.Errors) > 0 {
			fatal("package %s: %v", p.PkgPath, p.Errors)
		}
		for i, f := range p.Syntax {
			fname := p.CompiledGoFiles[i]
			if !strings.HasPrefix(fname, *dir) {
				continue
			}
			changed := rewriteFile(p, f, fname, rep, &next)
			if !changed {
				continue
			}
			var buf bytes.Buffer
			if err := format.Node(&buf, p.Fset, f); err != nil {
				fatal("format %s: %v", fname, err)
			}
			if err := os.WriteFile(fname, buf.Bytes(), 0o644); err != nil {
				fatal("write %s: %v", fname, err)
			}
			rep.Files++
		}
	}
	if *out != "" {
		b, _ := json.MarshalIndent(rep, "", " ")
		if err := os.WriteFile(*out, b, 0o644); err != nil {
			fatal("%v", err)
		}
	}
	fmt.Printf("mcinstr: %s: %d sites in %d files, %d uncontrolled constructs, %d sync imports\n", *dir, len(rep.Sites), rep.Files, len(rep.Uncontrolled), len(rep.SyncImports))
}

func fatal(f string, a ...any) {
	fmt.Fprintf(os.Stderr, "mcinstr: "+f+"\n", a...)
	os.Exit(2)
}

func relName(fname string) string {
	r := strings.TrimPrefix(fname, *strip)
	r = strings.TrimPrefix(r, string(filepath.Separator))
	return *label + r
}

func isMap(t types.Type) bool {
	if t == nil {
		return false
	}
	// type parameters constrained to maps are not handled (none in the code base)
	_, ok := t.Underlying().(*types.Map)
	return ok
}

func isReflectValue(t types.Type) bool {
	if t == nil {
		return false
	}
	n, ok := t.(*types.Named)
	if !ok {
		return false
	}
	o := n.Obj()
	return o.Pkg() != nil && o.Pkg().Path() == "reflect" && o.Name() == "Value"
}

func isBlank(e ast.Expr) bool {
	if e == nil {
		return true
	}
	id, ok := e.(*ast.Ident)
	return ok && id.Name == "_"
}

func rewriteFile(p *packages.Package, f *ast.File, fname string, rep *report, next *int) bool {
	info := p.TypesInfo
	changed := false
	usedMcrt := false
	curFunc := ""
	newSite := func(pos token.Pos, kind string) int {
		id := *next
		*next++
		ps := p.Fset.Position(pos)
		rep.Sites = append(rep.Sites, site{ID: id, File: relName(fname), Line: ps.Line, Func: curFunc, Kind: kind})
		return id
	}
	mc := func(name string) ast.Expr {
		usedMcrt = true
		return &ast.SelectorExpr{X: ast.NewIdent("mcrt"), Sel: ast.NewIdent(name)}
	}
	lit := func(i int) ast.Expr { return &ast.BasicLit{Kind: token.INT, Value: strconv.Itoa(i)} }

	// sync imports
	if *syncPath != "" {
		for _, im := range f.Imports {
			ip, _ := strconv.Unquote(im.Path.Value)
			switch ip {
			case "sync":
				if im.Name == nil {
					im.Name = ast.NewIdent("sync")
				}
				im.Path.Value = strconv.Quote(*syncPath + "/mcsync")
				changed = true
				rep.SyncImports = append(rep.SyncImports, relName(fname)+": sync")
			case "sync/atomic":
				if im.Name == nil {
					im.Name = ast.NewIdent("atomic")
				}
				im.Path.Value = strconv.Quote(*syncPath + "/mcatomic")
				changed = true
				rep.SyncImports = append(rep.SyncImports, relName(fname)+": sync/atomic")
			}
		}
	}

	pre := func(c *astutil.Cursor) bool {
		if fd, ok := c.Node().(*ast.FuncDecl); ok {
			curFunc = fd.Name.Name
			if fd.Recv != nil && len(fd.Recv.List) > 0 {
				var b bytes.Buffer
				_ = format.Node(&b, p.Fset, fd.Recv.List[0].Type)
				curFunc = "(" + b.String() + ")." + fd.Name.Name
			}
			if *depth && fd.Body != nil && fd.Name.Name != "init" {
				id := newSite(fd.Pos(), "func")
				enter := &ast.ExprStmt{X: &ast.CallExpr{Fun: mc("Enter"), Args: []ast.Expr{lit(id)}}}
				leave := &ast.DeferStmt{Call: &ast.CallExpr{Fun: mc("Leave")}}
				fd.Body.List = append([]ast.Stmt{enter, leave}, fd.Body.List...)
				changed = true
			}
		}
		if *depth {
			// every loop iteration of the module counts as work (divergence of a loop that iterates no map)
			var body *ast.BlockStmt
			var pos token.Pos
			switch n := c.Node().(type) {
			case *ast.ForStmt:
				body, pos = n.Body, n.Pos()
			case *ast.RangeStmt:
				body, pos = n.Body, n.Pos()
			}
			if body != nil {
				id := newSite(pos, "loop")
				tick := &ast.ExprStmt{X: &ast.CallExpr{Fun: mc("Loop"), Args: []ast.Expr{lit(id)}}}
				body.List = append([]ast.Stmt{tick}, body.List...)
				changed = true
			}
		}
		return true
	}
	post := func(c *astutil.Cursor) bool {
		switch n := c.Node().(type) {
		case *ast.RangeStmt:
			t := info.TypeOf(n.X)
			if t == nil {
				return true
			}
			if _, isSig := t.Underlying().(*types.Signature); isSig {
				rep.Uncontrolled = append(rep.Uncontrolled, fmt.Sprintf("%s:%d range-over-func", relName(fname), p.Fset.Position(n.Pos()).Line))
				return true
			}
			if !isMap(t) {
				return true
			}
			id := newSite(n.Pos(), "range")
			itName := ast.NewIdent(fmt.Sprintf("mcIt%d", id))
			var init ast.Stmt
			var cond ast.Expr
			hasK, hasV := !isBlank(n.Key), !isBlank(n.Value)
			call := func(fn string) ast.Expr {
				return &ast.CallExpr{Fun: mc(fn), Args: []ast.Expr{lit(id), n.X}}
			}
			method := func(name string, args ...ast.Expr) ast.Expr {
				return &ast.CallExpr{Fun: &ast.SelectorExpr{X: ast.NewIdent(itName.Name), Sel: ast.NewIdent(name)}, Args: args}
			}
			addr := func(e ast.Expr) ast.Expr { return &ast.UnaryExpr{Op: token.AND, X: e} }
			switch {
			case n.Tok == token.DEFINE && hasK && hasV:
				init = &ast.AssignStmt{Lhs: []ast.Expr{itName, n.Key, n.Value}, Tok: token.DEFINE, Rhs: []ast.Expr{call("IterKV")}}
				cond = method("NextKV", addr(ast.NewIdent(n.Key.(*ast.Ident).Name)), addr(ast.NewIdent(n.Value.(*ast.Ident).Name)))
			case n.Tok == token.DEFINE && hasK:
				init = &ast.AssignStmt{Lhs: []ast.Expr{itName, n.Key}, Tok: token.DEFINE, Rhs: []ast.Expr{call("IterK")}}
				cond = method("NextK", addr(ast.NewIdent(n.Key.(*ast.Ident).Name)))
			case n.Tok == token.DEFINE && hasV:
				init = &ast.AssignStmt{Lhs: []ast.Expr{itName, n.Value}, Tok: token.DEFINE, Rhs: []ast.Expr{call("IterV")}}
				cond = method("NextV", addr(ast.NewIdent(n.Value.(*ast.Ident).Name)))
			case !hasK && !hasV:
				init = &ast.AssignStmt{Lhs: []ast.Expr{itName}, Tok: token.DEFINE, Rhs: []ast.Expr{call("IterN")}}
				cond = method("Next")
			case n.Tok == token.ASSIGN:
				init = &ast.AssignStmt{Lhs: []ast.Expr{itName}, Tok: token.DEFINE, Rhs: []ast.Expr{call("IterN")}}
				switch {
				case hasK && hasV:
					cond = method("NextKV", addr(n.Key), addr(n.Value))
				case hasK:
					cond = method("NextK", addr(n.Key))
				default:
					cond = method("NextV", addr(n.Value))
				}
			default:
				rep.Uncontrolled = append(rep.Uncontrolled, fmt.Sprintf("%s:%d unsupported range form", relName(fname), p.Fset.Position(n.Pos()).Line))
				return true
			}
			c.Replace(&ast.ForStmt{For: n.For, Init: init, Cond: cond, Body: n.Body})
			changed = true
		case *ast.GoStmt:
			// a goroutine started by the library itself runs outside the cooperative scheduler
			rep.Uncontrolled = append(rep.Uncontrolled, fmt.Sprintf("%s:%d go statement (goroutine not under the controlled scheduler; only the free-running race pass observes it)", relName(fname), p.Fset.Position(n.Pos()).Line))
		case *ast.CallExpr:
			sel, ok := n.Fun.(*ast.SelectorExpr)
			if !ok {
				return true
			}
			if (sel.Sel.Name == "MapRange" || sel.Sel.Name == "MapKeys") && isReflectValue(info.TypeOf(sel.X)) && len(n.Args) == 0 {
				id := newSite(n.Pos(), "reflect."+sel.Sel.Name)
				c.Replace(&ast.CallExpr{Fun: mc(sel.Sel.Name), Args: []ast.Expr{lit(id), sel.X}})
				changed = true
				return true
			}
			// maps.Keys / maps.Values / maps.All and friends
			if id, ok := sel.X.(*ast.Ident); ok {
				if pn, ok := info.Uses[id].(*types.PkgName); ok {
					pp := pn.Imported().Path()
					if (pp == "maps" || pp == "golang.org/x/exp/maps") && (sel.Sel.Name == "Keys" || sel.Sel.Name == "Values" || sel.Sel.Name == "All") {
						rep.Uncontrolled = append(rep.Uncontrolled, fmt.Sprintf("%s:%d %s.%s", relName(fname), p.Fset.Position(n.Pos()).Line, pp, sel.Sel.Name))
					}
				}
			}
		case *ast.SelectorExpr:
			// type expression reflect.MapIter
			if n.Sel.Name == "MapIter" {
				if tn, ok := info.Uses[n.Sel].(*types.TypeName); ok && tn.Pkg() != nil && tn.Pkg().Path() == "reflect" {
					c.Replace(mc("MapIter"))
					changed = true
				}
			}
		}
		return true
	}
	astutil.Apply(f, pre, post)
	if usedMcrt {
		astutil.AddImport(p.Fset, f, *mcrtPath)
	}
	if changed {
		for _, imp := range []string{"reflect"} {
			if !astutil.UsesImport(f, imp) {
				astutil.DeleteImport(p.Fset, f, imp)
			}
		}
	}
	return changed
}

// Command worker runs one shard of one property's exploration against the code it was linked with.
package main

import (
	"encoding/json"
	"flag"
	"fmt"
	"io"
	"log"
	"os"
	"runtime/debug"
	"strconv"
	"strings"
	"time"

	"verif/mc/props"
)

func main() {
	prop := flag.String("prop", "", "property id")
	tier := flag.String("tier", "quick", "quick|thorough")
	shard := flag.Int("shard", 0, "shard index")
	n := flag.Int("n", 1, "number of shards")
	out := flag.String("out", "", "result file")
	replays := flag.String("replays", "", "directory for replay files")
	replay := flag.String("replay", "", "replay a violation file instead of exploring")
	seed := flag.Int64("seed", 0, "VERIF_SEED (only rotates non-deciding passes)")
	deadline := flag.Duration("deadline", 0, "internal deadline (0: none)")
	args := flag.String("args", "", "k=v,k=v extra arguments")
	journal := flag.String("journal", "", "journal file (execution in progress)")
	skip := flag.String("skip", "", "comma separated input numbers to skip")
	show := flag.String("show", "", "debug: comma separated feature labels; prints the bundle and what each oracle of -prop says")
	flag.Parse()
	if *show != "" {
		props.Show(*prop, strings.Split(*show, ";"))
		return
	}
	debug.SetMaxStack(256 << 20)
	log.SetOutput(io.Discard) // go-openapi/spec logs resolution errors on the standard logger

	// every process starts from the same non-initial state (see props.Prelude); free-running race passes skip it
	preludeCalls := 0
	if !strings.Contains(*args, "mode=race") {
		preludeCalls = props.Prelude()
	}
	if *replay != "" {
		b, err := os.ReadFile(*replay)
		if err != nil {
			fmt.Fprintln(os.Stderr, err)
			os.Exit(2)
		}
		var v props.Violation
		if err := json.Unmarshal(b, &v); err != nil {
			fmt.Fprintln(os.Stderr, err)
			os.Exit(2)
		}
		ch := props.Registry[v.Property]
		if ch == nil || ch.Replay == nil {
			fmt.Fprintln(os.Stderr, "no replayer for", v.Property)
			os.Exit(2)
		}
		// executions that preceded the violating one in its process are replayed first (results ignored)
		for _, hb := range v.History {
			var hv props.Violation
			if json.Unmarshal(hb, &hv) == nil {
				if hc := props.Registry[hv.Property]; hc != nil && hc.Replay != nil {
					func() {
						defer func() { _ = recover() }()
						hc.Replay(&hv)
					}()
				}
			}
		}
		if msg := ch.Replay(&v); msg != "" {
			fmt.Printf("REPRODUCED property=%s signature=%q\n%s\n", v.Property, v.Signature, msg)
			os.Exit(1)
		}
		fmt.Printf("NOT-REPRODUCED property=%s\n", v.Property)
		return
	}

	ch := props.Registry[*prop]
	if ch == nil {
		fmt.Fprintln(os.Stderr, "unknown property", *prop)
		os.Exit(2)
	}
	c := props.NewCtx(*prop, *tier, *shard, *n, *replays)
	c.Seed = *seed
	c.JournalPath = *journal
	c.Skip = map[int64]bool{}
	for _, t := range strings.Split(*skip, ",") {
		if n, err := strconv.ParseInt(t, 10, 64); err == nil {
			c.Skip[n] = true
		}
	}
	if *deadline > 0 {
		c.Deadline = time.Now().Add(*deadline)
	}
	for _, kv := range strings.Split(*args, ",") {
		if i := strings.Index(kv, "="); i > 0 {
			c.Args[kv[:i]] = kv[i+1:]
		}
	}
	t0 := time.Now()
	c.Bounds["prelude_calls"] = preludeCalls
	ch.Run(c)
	res := c.Result(time.Since(t0).Seconds())
	b, err := json.Marshal(res)
	if err != nil {
		fmt.Fprintln(os.Stderr, "cannot serialize result:", err)
		os.Exit(2)
	}
	if *out == "" {
		os.Stdout.Write(b)
		return
	}
	if err := os.WriteFile(*out, b, 0o644); err != nil {
		fmt.Fprintln(os.Stderr, err)
		os.Exit(2)
	}
}

package gen

import (
	"fmt"
	"net/url"
	"strconv"
	"strings"
)

// Files of a bundle.
const (
	RootFile = "root.json"
	AuxA     = "sub/a.json"
	AuxB     = "sub/deep/b.json"
	AuxC     = "other/c.json"
)

// BundleSpec collects plants per file.
type BundleSpec struct {
	Plants map[string][]Plant
	Labels []string
	// Traits of the bundle used by the W guards and by oracles.
	HasPointer       bool // anonymous JSON pointer $ref
	HasSharedPointer bool // anonymous pointer into a shared parameter/response
	Cyclic           bool // declared by features that build reference cycles (informational; oracles recompute)
	respCode         int
}

// NewBundleSpec starts from the skeleton.
func NewBundleSpec() *BundleSpec {
	b := &BundleSpec{Plants: map[string][]Plant{}, respCode: 210}
	b.Plants[RootFile] = Skeleton()
	b.Add(RootFile, P(J{"operationId": "getP"}, "paths", BasePath, "get"))
	return b
}

// Add plants to a file.
func (b *BundleSpec) Add(file string, pl ...Plant) { b.Plants[file] = append(b.Plants[file], pl...) }

// HasAux tells whether the bundle has auxiliary documents.
func (b *BundleSpec) HasAux() bool { return len(b.Plants) > 1 }

// Render builds the documents.
func (b *BundleSpec) Render() (map[string]string, bool) {
	out := map[string]string{}
	for f, pl := range b.Plants {
		if f != RootFile {
			pl = append([]Plant{P(J{"swagger": "2.0"}), P(J{"title": "aux", "version": "1"}, "info"), P(J{}, "paths")}, pl...)
		}
		doc, ok := Build(pl)
		if !ok {
			return nil, false
		}
		out[f] = JSON(doc)
	}
	return out, true
}

// EscName renders a definition name inside a $ref the way a careful author does:
// JSON-pointer escaping, then URL escaping.
func EscName(name string) string {
	p := strings.ReplaceAll(strings.ReplaceAll(name, "~", "~0"), "/", "~1")
	return (&url.URL{Path: p}).EscapedPath()
}

// LocalRef to a root definition.
func LocalRef(name string) J { return J{"$ref": "#/definitions/" + EscName(name)} }

// use makes a root definition referenced from the skeleton operation (so that it is not "unused").
func (b *BundleSpec) use(name string) {
	b.respCode++
	c := strconv.Itoa(b.respCode)
	b.Add(RootFile, P(J{"description": "uses " + name}, "paths", BasePath, "get", "responses", c),
		P(LocalRef(name), "paths", BasePath, "get", "responses", c, "schema"))
}

// Content is a schema to put in a holder: it returns the schema and adds its side plants (targets).
type Content struct {
	Label string
	Class string
	Make  func(b *BundleSpec, slot int) J
	// only W under these conditions
	Pointer, SharedPointer, Aux bool
}

// Holder is a place where a schema is put.
type Holder struct {
	Label string
	Put   func(b *BundleSpec, slot int, schema J)
}

func simpleObj(tag string) J {
	return J{"type": "object", "properties": J{"id": J{"type": "integer"}, tag: J{"type": "string"}}}
}

var opMethods = []string{"post", "put", "patch"}

// Holders returns the holder kinds.
func Holders() []Holder {
	def := func(prefix string, wrap func(s J) J) Holder {
		return Holder{Label: prefix, Put: func(b *BundleSpec, slot int, s J) {
			name := prefix + strconv.Itoa(slot)
			b.Add(RootFile, P(wrap(s), "definitions", name))
			b.use(name)
		}}
	}
	hs := []Holder{}
	// property names over the alphabet (a complex schema under a property whose name needs escaping)
	for _, pn := range []string{"pet owner", "ü", "a/b", "t~x", "q?", "h#", "b[0]", "{c}"} {
		pn := pn
		hs = append(hs, def("propNamed["+pn+"]", func(s J) J { return J{"type": "object", "properties": J{pn: s, "plain": J{"type": "string"}}} }))
	}
	return append(hs, []Holder{
		def("defBody", func(s J) J { return s }),
		def("prop", func(s J) J { return J{"type": "object", "properties": J{"p": s, "q": J{"type": "string"}}} }),
		def("items", func(s J) J { return J{"type": "array", "items": s} }),
		def("tupleMember", func(s J) J { return J{"type": "array", "items": []any{J{"type": "string"}, s}} }),
		def("additionalItems", func(s J) J { return J{"type": "array", "items": []any{J{"type": "string"}}, "additionalItems": s} }),
		def("additionalProperties", func(s J) J { return J{"type": "object", "additionalProperties": s} }),
		def("additionalItemsOfList", func(s J) J { return J{"type": "array", "items": J{"type": "string"}, "additionalItems": s} }),
		def("additionalItemsAlone", func(s J) J { return J{"type": "array", "additionalItems": s} }),
		def("allOfMember", func(s J) J {
			return J{"allOf": []any{J{"type": "object", "properties": J{"x": J{"type": "string"}}}, s}}
		}),
		{Label: "opBody", Put: func(b *BundleSpec, slot int, s J) {
			m := opMethods[slot%3]
			b.Add(RootFile, P(J{"operationId": m + "P", "parameters": []any{J{"name": "body", "in": "body", "schema": s}}}, "paths", BasePath, m),
				P(J{"description": "ok"}, "paths", BasePath, m, "responses", "200"))
		}},
		{Label: "pathBody", Put: func(b *BundleSpec, slot int, s J) {
			pt := "/q" + strconv.Itoa(slot) + "/{id}"
			b.Add(RootFile, P(J{"parameters": []any{J{"name": "body", "in": "body", "schema": s}}}, "paths", pt),
				P(J{"operationId": "getQ" + strconv.Itoa(slot)}, "paths", pt, "get"), P(J{"description": "ok"}, "paths", pt, "get", "responses", "200"),
				P(J{"operationId": "postQ" + strconv.Itoa(slot)}, "paths", pt, "post"), P(J{"description": "ok"}, "paths", pt, "post", "responses", "200"))
		}},
		{Label: "pathBodyThreeOps", Put: func(b *BundleSpec, slot int, s J) {
			pt := "/q3" + strconv.Itoa(slot) + "/{id}"
			b.Add(RootFile, P(J{"parameters": []any{J{"name": "body", "in": "body", "schema": s}}}, "paths", pt))
			for _, m := range []string{"get", "put", "delete"} {
				b.Add(RootFile, P(J{"operationId": m + "Q3" + strconv.Itoa(slot)}, "paths", pt, m), P(J{"description": "ok"}, "paths", pt, m, "responses", "200"))
			}
		}},
		{Label: "sharedBody", Put: func(b *BundleSpec, slot int, s J) {
			n := "bp" + strconv.Itoa(slot)
			m := "delete"
			b.Add(RootFile, P(J{"name": "body", "in": "body", "schema": s}, "parameters", n),
				P(J{"operationId": m + "S" + strconv.Itoa(slot), "parameters": []any{J{"$ref": "#/parameters/" + n}}}, "paths", "/s"+strconv.Itoa(slot), m),
				P(J{"description": "ok"}, "paths", "/s"+strconv.Itoa(slot), m, "responses", "200"))
		}},
		{Label: "codeResponse", Put: func(b *BundleSpec, slot int, s J) {
			c := strconv.Itoa(201 + slot)
			b.Add(RootFile, P(J{"description": "r", "schema": s}, "paths", BasePath, "get", "responses", c))
		}},
		{Label: "defaultResponse", Put: func(b *BundleSpec, slot int, s J) {
			m := opMethods[slot%3]
			b.Add(RootFile, P(J{"operationId": m + "P"}, "paths", BasePath, m), P(J{"description": "d", "schema": s}, "paths", BasePath, m, "responses", "default"))
		}},
		{Label: "sharedResponse", Put: func(b *BundleSpec, slot int, s J) {
			n := "sr" + strconv.Itoa(slot)
			b.Add(RootFile, P(J{"description": "shared", "schema": s}, "responses", n),
				P(J{"$ref": "#/responses/" + n}, "paths", BasePath, "get", "responses", strconv.Itoa(404+slot)))
		}},
		{Label: "optionsBody", Put: func(b *BundleSpec, slot int, s J) {
			pt := "/o" + strconv.Itoa(slot)
			b.Add(RootFile, P(J{"operationId": "optionsO" + strconv.Itoa(slot), "parameters": []any{J{"name": "body", "in": "body", "schema": s}}}, "paths", pt, "options"),
				P(J{"description": "ok"}, "paths", pt, "options", "responses", "200"))
		}},
		{Label: "optionsResponse", Put: func(b *BundleSpec, slot int, s J) {
			pt := "/o" + strconv.Itoa(slot)
			b.Add(RootFile, P(J{"operationId": "optionsO" + strconv.Itoa(slot)}, "paths", pt, "options"), P(J{"description": "ok", "schema": s}, "paths", pt, "options", "responses", "200"))
		}},
		{Label: "headResponse", Put: func(b *BundleSpec, slot int, s J) {
			pt := "/o" + strconv.Itoa(slot)
			b.Add(RootFile, P(J{"operationId": "headO" + strconv.Itoa(slot)}, "paths", pt, "head"), P(J{"description": "ok", "schema": s}, "paths", pt, "head", "responses", "default"))
		}},
		{Label: "deleteBody", Put: func(b *BundleSpec, slot int, s J) {
			pt := "/o" + strconv.Itoa(slot)
			b.Add(RootFile, P(J{"operationId": "deleteO" + strconv.Itoa(slot), "parameters": []any{J{"name": "body", "in": "body", "schema": s}}}, "paths", pt, "delete"),
				P(J{"description": "ok"}, "paths", pt, "delete", "responses", "204"))
		}},
		{Label: "opBodyAtPath[~]", Put: func(b *BundleSpec, slot int, s J) { putOpBodyAt(b, "/~{user}/files"+strconv.Itoa(slot), slot, s) }},
		{Label: "opResponseAtPath[~]", Put: func(b *BundleSpec, slot int, s J) { putOpResponseAt(b, "/~{user}/files"+strconv.Itoa(slot), slot, s) }},
		{Label: "opBodyAtPath[space]", Put: func(b *BundleSpec, slot int, s J) { putOpBodyAt(b, "/a b"+strconv.Itoa(slot)+"/{x}", slot, s) }},
		{Label: "opResponseAtPath[ü]", Put: func(b *BundleSpec, slot int, s J) { putOpResponseAt(b, "/ü"+strconv.Itoa(slot)+"/{c}", slot, s) }},
		{Label: "opBodyAtPath[trailingSlash]", Put: func(b *BundleSpec, slot int, s J) { putOpBodyAt(b, "/ts"+strconv.Itoa(slot)+"/", slot, s) }},
		{Label: "nestedInOp", Put: func(b *BundleSpec, slot int, s J) {
			c := strconv.Itoa(205 + slot)
			b.Add(RootFile, P(J{"description": "n", "schema": J{"type": "object", "properties": J{"nested": J{"type": "array", "items": s}}}}, "paths", BasePath, "get", "responses", c))
		}},
	}...)
}

// putOpBodyAt / putOpResponseAt: an operation without operationId (generated names come from method and path) under
// a path template with characters that need escaping in a JSON pointer or a URL.
func putOpBodyAt(b *BundleSpec, pt string, slot int, s J) {
	b.Add(RootFile, P(J{"parameters": []any{J{"name": "body", "in": "body", "schema": s}}}, "paths", pt, "post"),
		P(J{"description": "ok"}, "paths", pt, "post", "responses", "200"))
}

func putOpResponseAt(b *BundleSpec, pt string, slot int, s J) {
	b.Add(RootFile, P(J{"description": "ok", "schema": s}, "paths", pt, "get", "responses", "200"),
		P(J{"description": "d", "schema": J{"type": "array", "items": s}}, "paths", pt, "get", "responses", "default"))
}

// Contents returns the content kinds; names instantiates the named contents.
func Contents(names []string) []Content {
	var cs []Content
	add := func(label, class string, mk func(b *BundleSpec, slot int) J) *Content {
		cs = append(cs, Content{Label: label, Class: class, Make: mk})
		return &cs[len(cs)-1]
	}
	add("primitive", "inline-simple", func(b *BundleSpec, s int) J { return J{"type": "string"} })
	add("object", "inline-complex", func(b *BundleSpec, s int) J { return simpleObj("o") })
	add("arrayOfPrimitive", "inline-simple", func(b *BundleSpec, s int) J { return J{"type": "array", "items": J{"type": "integer"}} })
	add("arrayOfObject", "inline-complex", func(b *BundleSpec, s int) J { return J{"type": "array", "items": simpleObj("ao")} })
	add("mapOfObject", "inline-complex", func(b *BundleSpec, s int) J { return J{"type": "object", "additionalProperties": simpleObj("mo")} })
	add("tuple", "inline-complex", func(b *BundleSpec, s int) J {
		return J{"type": "array", "items": []any{J{"type": "string"}, simpleObj("t")}}
	})
	add("tupleExtra", "inline-complex", func(b *BundleSpec, s int) J {
		return J{"type": "array", "items": []any{J{"type": "string"}}, "additionalItems": simpleObj("te")}
	})
	add("allOf", "inline-complex", func(b *BundleSpec, s int) J {
		return J{"allOf": []any{simpleObj("a1"), J{"type": "object", "properties": J{"extra": J{"type": "boolean"}}}}}
	})
	// three of a kind: the third member / element / property (a slip that is right for the first two)
	add("tupleOfThree", "inline-complex", func(b *BundleSpec, s int) J {
		return J{"type": "array", "items": []any{simpleObj("t3a"), J{"type": "string"}, simpleObj("t3c")}, "additionalItems": simpleObj("t3x")}
	})
	add("allOfOfThree", "inline-complex", func(b *BundleSpec, s int) J {
		b.Add(RootFile, P(simpleObj("a3base"), "definitions", "a3base"))
		return J{"allOf": []any{LocalRef("a3base"), simpleObj("a3b"), J{"type": "object", "properties": J{"third": simpleObj("a3c")}}}}
	})
	add("threeComplexProperties", "inline-complex", func(b *BundleSpec, s int) J {
		return J{"type": "object", "properties": J{"one": simpleObj("p3a"), "two": J{"type": "array", "items": simpleObj("p3b")}, "three": J{"type": "object", "additionalProperties": simpleObj("p3c")}}}
	})
	add("nestedArrays3", "inline-deep", func(b *BundleSpec, s int) J {
		return J{"type": "array", "items": J{"type": "array", "items": J{"type": "array", "items": simpleObj("deep3")}}}
	})
	// compositions of keywords: complex by one keyword, map/array-like by another
	add("allOfWithAdditionalProperties", "inline-complex", func(b *BundleSpec, s int) J {
		return J{"allOf": []any{simpleObj("ap1")}, "additionalProperties": J{"type": "string"}}
	})
	add("allOfWithAdditionalPropertiesTrue", "inline-complex", func(b *BundleSpec, s int) J {
		return J{"type": "object", "allOf": []any{simpleObj("ap2"), J{"type": "object", "properties": J{"more": J{"type": "integer"}}}}, "additionalProperties": true}
	})
	add("propertiesWithAdditionalProperties", "inline-complex", func(b *BundleSpec, s int) J {
		return J{"type": "object", "properties": J{"known": J{"type": "string"}}, "additionalProperties": simpleObj("ap3")}
	})
	add("allOfWithProperties", "inline-complex", func(b *BundleSpec, s int) J {
		return J{"allOf": []any{simpleObj("ap4")}, "properties": J{"own": J{"type": "boolean"}}}
	})
	add("propertiesWithoutType", "inline-complex", func(b *BundleSpec, s int) J {
		return J{"properties": J{"untyped": J{"type": "string"}}}
	})
	add("allOfOfSingleRef", "inline-complex", func(b *BundleSpec, s int) J {
		b.Add(RootFile, P(simpleObj("single"), "definitions", "singleBase"))
		return J{"allOf": []any{LocalRef("singleBase")}}
	})
	add("tupleOfRefs", "inline-complex", func(b *BundleSpec, s int) J {
		b.Add(RootFile, P(simpleObj("tr"), "definitions", "tupRefd"))
		return J{"type": "array", "items": []any{LocalRef("tupRefd"), LocalRef("tupRefd")}}
	})
	// schemas carrying every kind of annotation: moving, cloning or importing them must lose nothing
	add("richObject", "inline-complex", func(b *BundleSpec, s int) J {
		return J{"type": "object", "title": "Rich", "description": "rich object", "required": []any{"id"}, "x-ext": J{"k": []any{1, "two"}}, "x-nullable": true,
			"example": J{"id": 1}, "default": J{"id": 0}, "readOnly": true, "minProperties": 1, "maxProperties": 9, "discriminator": "kind",
			"externalDocs": J{"url": "http://x/docs", "description": "more"}, "xml": J{"name": "rich", "wrapped": true},
			"properties": J{"id": J{"type": "integer", "format": "int64", "minimum": 1, "maximum": 99, "exclusiveMinimum": true, "multipleOf": 1},
				"kind": J{"type": "string", "enum": []any{"a", "b"}, "pattern": "^[ab]$", "minLength": 1, "maxLength": 1, "x-go-name": "Kind"},
				"tags": J{"type": "array", "items": J{"type": "string"}, "minItems": 1, "maxItems": 3, "uniqueItems": true}}}
	})
	add("richArray", "inline-simple", func(b *BundleSpec, s int) J {
		return J{"type": "array", "description": "rich array", "x-order": 3, "minItems": 0, "maxItems": 7, "uniqueItems": true, "example": []any{"e"},
			"items": J{"type": "string", "format": "date-time", "x-item": "i", "default": "d"}}
	})
	// deeper nesting (naming of inline schemas at depth, C03)
	add("nestedObjects3", "inline-deep", func(b *BundleSpec, s int) J {
		return J{"type": "object", "properties": J{"l1": J{"type": "object", "properties": J{"l2": J{"type": "object", "properties": J{"l3": simpleObj("deep")}}}}}}
	})
	add("arrayOfTupleOfObject", "inline-deep", func(b *BundleSpec, s int) J {
		return J{"type": "array", "items": J{"type": "array", "items": []any{simpleObj("tup0"), J{"type": "array", "items": simpleObj("tup1item")}}}}
	})
	add("mapOfArrayOfAllOf", "inline-deep", func(b *BundleSpec, s int) J {
		return J{"type": "object", "additionalProperties": J{"type": "array", "items": J{"allOf": []any{simpleObj("m1"), J{"allOf": []any{simpleObj("m2")}}}}}}
	})
	add("objectWithRefsAndInline", "inline-deep", func(b *BundleSpec, s int) J {
		b.Add(RootFile, P(simpleObj("mixedLocal"), "definitions", "mixedLocal"))
		b.Add(AuxA, P(simpleObj("mixedAux"), "definitions", "mixedAux"))
		return J{"type": "object", "properties": J{"loc": LocalRef("mixedLocal"), "aux": J{"$ref": AuxA + "#/definitions/mixedAux"}, "inl": J{"type": "object", "properties": J{"again": J{"$ref": AuxA + "#/definitions/mixedAux"}}}}}
	})
	for _, nm := range names {
		nm := nm
		// a definition named over the alphabet that itself holds an inline complex schema (naming from a special name)
		add("defWithInline["+nm+"]", "ref-local-inline", func(b *BundleSpec, s int) J {
			b.Add(RootFile, P(J{"type": "object", "properties": J{"inner": simpleObj("inner"), "list": J{"type": "array", "items": simpleObj("listItem")}}}, "definitions", nm))
			return LocalRef(nm)
		})
		// a self-recursive root definition named over the alphabet (its circular $ref survives Expand and must keep its target)
		add("selfRecursiveLocalNamed["+nm+"]", "recursive", func(b *BundleSpec, s int) J {
			b.Add(RootFile, P(J{"type": "object", "properties": J{"next": LocalRef(nm), "v": J{"type": "string"}}}, "definitions", nm))
			b.Cyclic = true
			return LocalRef(nm)
		})
		// a self-recursive auxiliary definition named over the alphabet (rebasing of its own $ref)
		add("selfRecursiveAuxNamed["+nm+"]", "recursive-aux", func(b *BundleSpec, s int) J {
			b.Add(AuxA, P(J{"type": "object", "properties": J{"next": J{"$ref": "#/definitions/" + EscName(nm)}, "v": J{"type": "string"}}}, "definitions", nm))
			b.Cyclic = true
			return J{"$ref": AuxA + "#/definitions/" + EscName(nm)}
		}).Aux = true
	}
	for _, nm := range names {
		nm := nm
		add("refLocal["+nm+"]", "ref-local", func(b *BundleSpec, s int) J {
			b.Add(RootFile, P(simpleObj("local"), "definitions", nm))
			return LocalRef(nm)
		})
		add("refAux["+nm+"]", "ref-aux", func(b *BundleSpec, s int) J {
			b.Add(AuxA, P(simpleObj("auxA"), "definitions", nm))
			return J{"$ref": AuxA + "#/definitions/" + EscName(nm)}
		}).Aux = true
	}
	add("twoImportsCaseDifferent", "collide-imports", func(b *BundleSpec, s int) J {
		// two imported definitions of one auxiliary file whose names differ only by letter case: both map to the same generated name
		b.Add(AuxA, P(J{"type": "string", "description": "upper"}, "definitions", "Item"), P(J{"type": "integer", "description": "lower"}, "definitions", "item"))
		return J{"type": "object", "properties": J{"first": J{"$ref": AuxA + "#/definitions/Item"}, "second": J{"$ref": AuxA + "#/definitions/item"}}}
	}).Aux = true
	// two definitions whose names are equal up to a character that is special in a URL or a JSON pointer:
	// anything that truncates or mis-splits the rendered $ref confuses them
	for _, sep := range []string{"#", "?", "/", "~", " ", "[", "{", "ü"} {
		sep := sep
		add("twoAuxNamesEqualUpTo["+sep+"]", "ref-aux-names", func(b *BundleSpec, s int) J {
			n1, n2 := "nm"+sep+"cat", "nm"+sep+"dog"
			b.Add(AuxA, P(J{"type": "string", "description": "cat"}, "definitions", n1), P(J{"type": "integer", "description": "dog"}, "definitions", n2))
			return J{"type": "object", "properties": J{"first": J{"$ref": AuxA + "#/definitions/" + EscName(n1)}, "second": J{"$ref": AuxA + "#/definitions/" + EscName(n2)}}}
		}).Aux = true
		add("chainedAuxNamesEqualUpTo["+sep+"]", "ref-aux-names", func(b *BundleSpec, s int) J {
			n1, n2 := "ch"+sep+"cat", "ch"+sep+"dog"
			b.Add(AuxA, P(J{"type": "object", "properties": J{"friend": J{"$ref": "#/definitions/" + EscName(n2)}}}, "definitions", n1), P(J{"type": "integer", "description": "dog"}, "definitions", n2))
			return J{"$ref": AuxA + "#/definitions/" + EscName(n1)}
		}).Aux = true
		add("twoLocalNamesEqualUpTo["+sep+"]", "ref-local-names", func(b *BundleSpec, s int) J {
			n1, n2 := "lc"+sep+"cat", "lc"+sep+"dog"
			b.Add(RootFile, P(simpleObj("cat"), "definitions", n1), P(J{"type": "array", "items": simpleObj("dog")}, "definitions", n2))
			return J{"type": "object", "properties": J{"first": LocalRef(n1), "second": LocalRef(n2)}}
		})
	}
	// a definition whose only referrer sits inside a definition whose name extends its own (node / nodeList)
	add("refViaPrefixNamed[local]", "ref-local-names", func(b *BundleSpec, s int) J {
		b.Add(RootFile, P(simpleObj("node"), "definitions", "pnode"), P(J{"type": "array", "items": LocalRef("pnode")}, "definitions", "pnodeList"))
		return LocalRef("pnodeList")
	})
	add("refViaPrefixNamed[aux]", "ref-aux-names", func(b *BundleSpec, s int) J {
		b.Add(AuxA, P(simpleObj("anode"), "definitions", "qnode"), P(J{"type": "object", "properties": J{"all": J{"type": "array", "items": J{"$ref": "#/definitions/qnode"}}}}, "definitions", "qnodeList"))
		return J{"$ref": AuxA + "#/definitions/qnodeList"}
	}).Aux = true
	// auxiliary documents whose file name ends with / equals the file name of the root document
	add("refAuxFileNamedLikeRoot", "ref-aux-files", func(b *BundleSpec, s int) J {
		b.Add("sub/root.json", P(simpleObj("sameBase"), "definitions", "sameBase"))
		b.Add("other/xroot.json", P(simpleObj("suffixBase"), "definitions", "suffixBase"))
		return J{"type": "object", "properties": J{"one": J{"$ref": "sub/root.json#/definitions/sameBase"}, "two": J{"$ref": "other/xroot.json#/definitions/suffixBase"}}}
	}).Aux = true
	add("selfRecursiveAuxFileNamedLikeRoot", "recursive-aux", func(b *BundleSpec, s int) J {
		b.Add("other/xroot.json", P(J{"type": "object", "properties": J{"next": J{"$ref": "#/definitions/rlink"}, "v": J{"type": "string"}}}, "definitions", "rlink"))
		b.Cyclic = true
		return J{"$ref": "other/xroot.json#/definitions/rlink"}
	}).Aux = true
	add("mutualRecursiveAuxFileNamedLikeRoot", "recursive-aux", func(b *BundleSpec, s int) J {
		b.Add("sub/root.json", P(J{"type": "object", "properties": J{"o": J{"$ref": "#/definitions/rowner"}}}, "definitions", "ritem"),
			P(J{"type": "object", "properties": J{"fav": J{"$ref": "#/definitions/ritem"}}}, "definitions", "rowner"))
		b.Cyclic = true
		return J{"$ref": "sub/root.json#/definitions/ritem"}
	}).Aux = true
	add("twoImportsSameNameTwoFiles", "collide-imports", func(b *BundleSpec, s int) J {
		b.Add(AuxA, P(simpleObj("fromA"), "definitions", "dup"))
		b.Add(AuxC, P(simpleObj("fromC"), "definitions", "dup"))
		return J{"type": "object", "properties": J{"first": J{"$ref": AuxA + "#/definitions/dup"}, "second": J{"$ref": AuxC + "#/definitions/dup"}}}
	}).Aux = true
	add("refAuxDeep", "ref-aux-chain", func(b *BundleSpec, s int) J {
		b.Add(AuxA, P(J{"type": "object", "properties": J{"d": J{"$ref": "deep/b.json#/definitions/leaf"}}}, "definitions", "chain"))
		b.Add(AuxB, P(simpleObj("leafB"), "definitions", "leaf"))
		return J{"$ref": AuxA + "#/definitions/chain"}
	}).Aux = true
	add("refAuxSibling", "ref-aux-chain", func(b *BundleSpec, s int) J {
		b.Add(AuxA, P(J{"type": "object", "properties": J{"s": J{"$ref": "../other/c.json#/definitions/leafC"}, "t": J{"$ref": "#/definitions/inA"}}}, "definitions", "sib"),
			P(simpleObj("inA"), "definitions", "inA"))
		b.Add(AuxC, P(simpleObj("leafC"), "definitions", "leafC"))
		return J{"$ref": AuxA + "#/definitions/sib"}
	}).Aux = true
	add("refAuxChainToRecursive", "ref-aux-chain", func(b *BundleSpec, s int) J {
		// a recursive auxiliary definition first reached behind two other imports
		b.Add(AuxA, P(J{"type": "object", "properties": J{"payload": J{"$ref": "#/definitions/middle"}}}, "definitions", "envelope"),
			P(J{"type": "object", "properties": J{"first": J{"$ref": "deep/b.json#/definitions/rnode"}}}, "definitions", "middle"))
		b.Add(AuxB, P(J{"type": "object", "properties": J{"next": J{"$ref": "#/definitions/rnode"}, "v": J{"type": "string"}}}, "definitions", "rnode"))
		b.Cyclic = true
		return J{"$ref": AuxA + "#/definitions/envelope"}
	}).Aux = true
	add("refAuxChain3", "ref-aux-chain", func(b *BundleSpec, s int) J {
		// root -> sub/a.json -> sub/deep/b.json -> other/c.json: every hop is relative to the document it is written in
		b.Add(AuxA, P(J{"type": "object", "properties": J{"m": J{"$ref": "deep/b.json#/definitions/mid3"}}}, "definitions", "chain3"))
		b.Add(AuxB, P(J{"type": "object", "properties": J{"l": J{"$ref": "../../other/c.json#/definitions/leaf3"}, "own": J{"$ref": "#/definitions/ownB"}}}, "definitions", "mid3"),
			P(J{"type": "string", "description": "own of b"}, "definitions", "ownB"))
		b.Add(AuxC, P(simpleObj("leaf3"), "definitions", "leaf3"))
		return J{"$ref": AuxA + "#/definitions/chain3"}
	}).Aux = true
	add("auxDiamondAcrossFiles", "ref-aux-chain", func(b *BundleSpec, s int) J {
		// one definition of other/c.json reached through two documents, i.e. under two different relative spellings
		b.Add(AuxA, P(J{"type": "object", "properties": J{"x": J{"$ref": "../other/c.json#/definitions/dc"}, "y": J{"$ref": "deep/b.json#/definitions/db"}}}, "definitions", "da"))
		b.Add(AuxB, P(J{"type": "object", "properties": J{"z": J{"$ref": "../../other/c.json#/definitions/dc"}}}, "definitions", "db"))
		b.Add(AuxC, P(simpleObj("dc"), "definitions", "dc"))
		return J{"$ref": AuxA + "#/definitions/da"}
	}).Aux = true
	add("refAuxTwoSpellings", "ref-aux-chain", func(b *BundleSpec, s int) J {
		// the same auxiliary definition written under two spellings of the same relative file name
		b.Add(AuxA, P(simpleObj("spelled"), "definitions", "spelled"))
		return J{"type": "object", "properties": J{"one": J{"$ref": AuxA + "#/definitions/spelled"}, "two": J{"$ref": "./" + AuxA + "#/definitions/spelled"}, "three": J{"$ref": "sub/deep/../a.json#/definitions/spelled"}}}
	}).Aux = true
	add("refAuxSameNameDifferentDirs", "collide-imports", func(b *BundleSpec, s int) J {
		// sub/a.json and sub/deep/b.json each define "same"; a.json's refers to b.json's: imports collide with each other, not with the root
		b.Add(AuxA, P(J{"type": "object", "properties": J{"inner": J{"$ref": "deep/b.json#/definitions/same"}, "tagA": J{"type": "string"}}}, "definitions", "same"))
		b.Add(AuxB, P(simpleObj("sameB"), "definitions", "same"))
		return J{"$ref": AuxA + "#/definitions/same"}
	}).Aux = true
	add("selfRecursive", "recursive", func(b *BundleSpec, s int) J {
		b.Add(RootFile, P(J{"type": "object", "properties": J{"next": LocalRef("node"), "v": J{"type": "string"}}}, "definitions", "node"))
		b.Cyclic = true
		return LocalRef("node")
	})
	add("selfRecursiveAux", "recursive-aux", func(b *BundleSpec, s int) J {
		b.Add(AuxA, P(J{"type": "object", "properties": J{"next": J{"$ref": "#/definitions/anode"}, "v": J{"type": "string"}}}, "definitions", "anode"))
		b.Cyclic = true
		return J{"$ref": AuxA + "#/definitions/anode"}
	}).Aux = true
	for _, cx := range []string{"simple", "complex"} {
		cx := cx
		add("selfRecursiveAuxColliding["+cx+"]", "recursive-aux-collide", func(b *BundleSpec, s int) J {
			item := J{"type": "string", "description": "aux item"}
			if cx == "complex" {
				item = simpleObj("auxItem")
			}
			b.Add(AuxA, P(J{"type": "object", "properties": J{"next": J{"$ref": "#/definitions/cnode"}, "a": J{"$ref": "#/definitions/Item"}, "b": J{"$ref": "#/definitions/Item"}, "c": J{"type": "array", "items": J{"$ref": "#/definitions/Item"}}}}, "definitions", "cnode"),
				P(item, "definitions", "Item"))
			b.Add(RootFile, P(J{"type": "integer", "description": "root item"}, "definitions", "item"))
			b.use("item")
			b.Cyclic = true
			return J{"$ref": AuxA + "#/definitions/cnode"}
		}).Aux = true
	}
	add("recursiveAuxWithCaseDifferentLeaves", "recursive-aux", func(b *BundleSpec, s int) J {
		// a recursive auxiliary definition referring to two $ref-free definitions of its own file whose names differ only by case
		b.Add(AuxA, P(J{"type": "object", "properties": J{"next": J{"$ref": "#/definitions/cdTree"}, "upper": J{"$ref": "#/definitions/Leaf"}, "lower": J{"$ref": "#/definitions/leaf"}}}, "definitions", "cdTree"),
			P(simpleObj("upperLeaf"), "definitions", "Leaf"), P(J{"type": "string", "description": "lower leaf"}, "definitions", "leaf"))
		b.Cyclic = true
		return J{"$ref": AuxA + "#/definitions/cdTree"}
	}).Aux = true
	add("collidingImportFourReferrers", "collide", func(b *BundleSpec, s int) J {
		// one colliding import referred to from four places at different depths
		b.Add(RootFile, P(simpleObj("rootMulti"), "definitions", "multi"),
			P(J{"type": "object", "properties": J{"gammaThree": J{"type": "object", "properties": J{"deep": J{"$ref": AuxA + "#/definitions/multi"}}}}}, "definitions", "zHolder"),
			P(J{"type": "array", "items": J{"$ref": AuxA + "#/definitions/multi"}}, "definitions", "aList"))
		b.use("multi")
		b.use("zHolder")
		b.use("aList")
		b.Add(AuxA, P(simpleObj("auxMulti"), "definitions", "multi"))
		return J{"type": "object", "properties": J{"alphaOne": J{"$ref": AuxA + "#/definitions/multi"}, "betaTwo": J{"$ref": AuxA + "#/definitions/multi"}}}
	}).Aux = true
	for _, rec := range []bool{true, false} {
		rec := rec
		label := "auxDiamondColliding"
		if rec {
			label += "[recursive]"
		}
		add(label, "recursive-aux-collide", func(b *BundleSpec, s int) J {
			node := J{"l": J{"$ref": "#/definitions/leaf"}, "m": J{"$ref": "#/definitions/mid"}}
			if rec {
				node["next"] = J{"$ref": "#/definitions/dnode"}
				b.Cyclic = true
			}
			b.Add(AuxA, P(J{"type": "object", "properties": node}, "definitions", "dnode"),
				P(J{"type": "object", "properties": J{"ml": J{"$ref": "#/definitions/leaf"}}}, "definitions", "mid"),
				P(J{"type": "string", "description": "aux leaf"}, "definitions", "leaf"))
			b.Add(RootFile, P(J{"type": "integer", "description": "root leaf"}, "definitions", "leaf"))
			b.use("leaf")
			return J{"$ref": AuxA + "#/definitions/dnode"}
		}).Aux = true
	}
	add("mutualRecursive", "recursive", func(b *BundleSpec, s int) J {
		b.Add(RootFile, P(J{"type": "object", "properties": J{"b": LocalRef("mb")}}, "definitions", "ma"), P(J{"type": "object", "properties": J{"a": LocalRef("ma")}}, "definitions", "mb"))
		b.Cyclic = true
		return LocalRef("ma")
	})
	add("mutualRecursiveAux", "recursive-aux", func(b *BundleSpec, s int) J {
		b.Add(AuxA, P(J{"type": "object", "properties": J{"b": J{"$ref": "../other/c.json#/definitions/xb"}}}, "definitions", "xa"))
		b.Add(AuxC, P(J{"type": "object", "properties": J{"a": J{"$ref": "../sub/a.json#/definitions/xa"}}}, "definitions", "xb"))
		b.Cyclic = true
		return J{"$ref": AuxA + "#/definitions/xa"}
	}).Aux = true
	add("arrayOfItself", "recursive-container", func(b *BundleSpec, s int) J {
		b.Add(RootFile, P(J{"type": "array", "items": LocalRef("arrSelf")}, "definitions", "arrSelf"))
		b.Cyclic = true
		return LocalRef("arrSelf")
	})
	add("arrayOfArrayOfItself", "recursive-container", func(b *BundleSpec, s int) J {
		b.Add(RootFile, P(J{"type": "array", "items": J{"type": "array", "items": LocalRef("matrixSelf")}}, "definitions", "matrixSelf"))
		b.Cyclic = true
		return LocalRef("matrixSelf")
	})
	add("arrayOfMapOfItself", "recursive-container", func(b *BundleSpec, s int) J {
		b.Add(RootFile, P(J{"type": "array", "items": J{"type": "object", "additionalProperties": LocalRef("treeSelf")}}, "definitions", "treeSelf"))
		b.Cyclic = true
		return LocalRef("treeSelf")
	})
	add("mutualContainersAux", "recursive-container", func(b *BundleSpec, s int) J {
		b.Add(AuxA, P(J{"type": "array", "items": J{"$ref": "#/definitions/pong"}}, "definitions", "ping"),
			P(J{"type": "object", "additionalProperties": J{"$ref": "#/definitions/ping"}}, "definitions", "pong"))
		b.Cyclic = true
		return J{"$ref": AuxA + "#/definitions/ping"}
	}).Aux = true
	add("forestOfTrees", "recursive-container", func(b *BundleSpec, s int) J {
		// a container of a $ref to a container of itself: the cycle is entered through a $ref that is not part of it
		b.Add(RootFile, P(J{"type": "array", "items": LocalRef("treeMap")}, "definitions", "forestArr"),
			P(J{"type": "object", "additionalProperties": LocalRef("treeMap")}, "definitions", "treeMap"))
		b.Cyclic = true
		return J{"type": "array", "items": LocalRef("forestArr")}
	})
	add("mapOfItself", "recursive-container", func(b *BundleSpec, s int) J {
		b.Add(RootFile, P(J{"type": "object", "additionalProperties": LocalRef("mapSelf")}, "definitions", "mapSelf"))
		b.Cyclic = true
		return LocalRef("mapSelf")
	})
	// anonymous pointers to a direct sub-schema of a root definition
	type ptr struct{ label, suffix string; target func(sub J) J }
	ptrs := []ptr{
		{"properties", "/properties/x", func(sub J) J { return J{"type": "object", "properties": J{"x": sub, "y": J{"type": "string"}}} }},
		{"items", "/items", func(sub J) J { return J{"type": "array", "items": sub} }},
		{"items0", "/items/0", func(sub J) J { return J{"type": "array", "items": []any{sub, J{"type": "string"}}} }},
		{"additionalItems", "/additionalItems", func(sub J) J { return J{"type": "array", "items": []any{J{"type": "string"}}, "additionalItems": sub} }},
		{"allOf0", "/allOf/0", func(sub J) J { return J{"allOf": []any{sub, J{"type": "object", "properties": J{"z": J{"type": "string"}}}}} }},
		{"additionalProperties", "/additionalProperties", func(sub J) J { return J{"type": "object", "additionalProperties": sub} }},
	}
	for _, p := range ptrs {
		for _, cx := range []string{"simple", "complex", "refLocal", "refAux", "refAuxCollide", "arrayOfRef", "mapOfRef"} {
			p, cx := p, cx
			c := add("pointer["+p.label+","+cx+"]", "pointer-"+cx, func(b *BundleSpec, s int) J {
				sub := J{"type": "string", "description": "ptr target"}
				switch cx {
				case "complex":
					sub = simpleObj("pt")
				case "refLocal":
					// the pointed sub-schema is itself a $ref to a definition
					b.Add(RootFile, P(simpleObj("ptLocal"), "definitions", "ptLocal"))
					sub = LocalRef("ptLocal")
				case "refAux":
					b.Add(AuxA, P(simpleObj("ptAux"), "definitions", "ptAux"))
					sub = J{"$ref": AuxA + "#/definitions/ptAux"}
				case "arrayOfRef":
					b.Add(RootFile, P(simpleObj("ptElem"), "definitions", "ptElem"))
					sub = J{"type": "array", "items": LocalRef("ptElem")}
				case "mapOfRef":
					b.Add(RootFile, P(simpleObj("ptElem"), "definitions", "ptElem"))
					sub = J{"type": "object", "additionalProperties": LocalRef("ptElem")}
				case "refAuxCollide":
					b.Add(RootFile, P(simpleObj("rootThing"), "definitions", "thing"))
					b.use("thing")
					b.Add(AuxA, P(simpleObj("auxThing"), "definitions", "thing"))
					sub = J{"$ref": AuxA + "#/definitions/thing"}
				}
				name := "tgt" + strings.ToUpper(p.label[:1]) + p.label[1:] + cx
				b.Add(RootFile, P(p.target(sub), "definitions", name))
				b.use(name)
				b.HasPointer = true
				return J{"$ref": "#/definitions/" + name + p.suffix}
			})
			c.Pointer = true
		}
	}
	// pointers to a property whose name needs escaping in the pointer (target simple or complex)
	for _, pn := range names {
		if pn == "pet" {
			continue
		}
		for _, cx := range []string{"simple", "complex"} {
			pn, cx := pn, cx
			c := add("pointerToNamedProperty["+pn+","+cx+"]", "pointer-"+cx, func(b *BundleSpec, s int) J {
				sub := J{"type": "string", "description": "named ptr target"}
				if cx == "complex" {
					sub = simpleObj("npt")
				}
				b.Add(RootFile, P(J{"type": "object", "properties": J{pn: sub, "plain": J{"type": "string"}}}, "definitions", "tgtNamed"+cx))
				b.use("tgtNamed" + cx)
				b.HasPointer = true
				return J{"$ref": "#/definitions/tgtNamed" + cx + "/properties/" + EscName(pn)}
			})
			c.Pointer = true
		}
	}
	// pointers into a definition whose own name needs escaping; the definition is referred to only through the pointer
	for _, dn := range names {
		if dn == "pet" {
			continue
		}
		for _, cx := range []string{"simple", "complex"} {
			dn, cx := dn, cx
			c := add("pointerIntoNamedDefinition["+dn+","+cx+"]", "pointer-"+cx, func(b *BundleSpec, s int) J {
				sub := J{"type": "string", "description": "inner of named"}
				if cx == "complex" {
					sub = simpleObj("innerOfNamed")
				}
				b.Add(RootFile, P(J{"type": "object", "properties": J{"inner": sub, "plain": J{"type": "string"}}}, "definitions", dn))
				b.HasPointer = true
				return J{"$ref": "#/definitions/" + EscName(dn) + "/properties/inner"}
			})
			c.Pointer = true
		}
	}
	{
		c := add("pointerPrefixSibling", "pointer-simple", func(b *BundleSpec, s int) J {
			// the pointed property's name extends the name of a complex sibling: keys that are string prefixes of one another
			b.Add(RootFile, P(J{"type": "object", "properties": J{"owner": simpleObj("owner"), "ownerId": J{"type": "string", "format": "uuid"}}}, "definitions", "tgtPrefix"))
			b.use("tgtPrefix")
			b.HasPointer = true
			return J{"$ref": "#/definitions/tgtPrefix/properties/ownerId"}
		})
		c.Pointer = true
		// two pointers whose targets are siblings, the name of one extending the name of the other ("item" / "items"): the
		// pointer strings are prefixes of one another, so a textual containment test on pointers must stop at a token boundary
		for _, kinds := range [][2]string{{"complex", "complex"}, {"simple", "complex"}, {"complex", "simple"}} {
			kinds := kinds
			mk := func(kind, tag string) J {
				if kind == "complex" {
					return simpleObj(tag)
				}
				return J{"type": "string", "description": tag}
			}
			cls := "pointer-" + kinds[1]
			c = add("twoPointersPrefixSiblings["+kinds[0]+","+kinds[1]+"]", cls, func(b *BundleSpec, s int) J {
				b.Add(RootFile, P(J{"type": "object", "properties": J{"item": mk(kinds[0], "short"), "items": mk(kinds[1], "long")}}, "definitions", "tgtCart"))
				b.use("tgtCart")
				b.Add(RootFile, P(J{"type": "object", "properties": J{"first": J{"$ref": "#/definitions/tgtCart/properties/item"}}}, "definitions", "cartOrder"))
				b.use("cartOrder")
				b.HasPointer = true
				return J{"$ref": "#/definitions/tgtCart/properties/items"}
			})
			c.Pointer = true
		}
		c = add("pointerNestedInTarget", "pointer-complex", func(b *BundleSpec, s int) J {
			// the target of the pointer contains, deeper, another pointer to a direct sub-schema of the same definition
			b.Add(RootFile, P(J{"type": "object", "properties": J{
				"owner":   J{"type": "object", "properties": J{"name": J{"type": "string"}, "addr": J{"$ref": "#/definitions/tgtNested/properties/address"}}},
				"address": J{"type": "object", "properties": J{"street": J{"type": "string"}}}}}, "definitions", "tgtNested"))
			b.use("tgtNested")
			b.HasPointer = true
			return J{"$ref": "#/definitions/tgtNested/properties/owner"}
		})
		c.Pointer = true
		c = add("twoPointersOneTarget", "pointer-simple", func(b *BundleSpec, s int) J {
			b.Add(RootFile, P(J{"type": "object", "properties": J{"shared": J{"type": "string", "description": "common"}, "other": J{"$ref": "#/definitions/tgtShared/properties/shared"}}}, "definitions", "tgtShared"))
			b.use("tgtShared")
			b.HasPointer = true
			return J{"$ref": "#/definitions/tgtShared/properties/shared"}
		})
		c.Pointer = true
	}
	// a pointer whose target holds, one level down, a pointer into a shared parameter / response (both kinds of pointer are
	// in W; the caller may sit deeper or shallower in the document than the inner pointer)
	for _, kind := range []string{"parameters", "responses"} {
		kind := kind
		c := add("pointerToHolderOfSharedPointer["+kind+"]", "pointer-shared-simple", func(b *BundleSpec, s int) J {
			n := "hsp" + kind[:3]
			if kind == "parameters" {
				b.Add(RootFile, P(J{"name": "body", "in": "body", "schema": J{"type": "string", "description": "shared inner"}}, "parameters", n),
					P(J{"operationId": "headHsp", "parameters": []any{J{"$ref": "#/parameters/" + n}}}, "paths", "/hsp", "head"), P(J{"description": "ok"}, "paths", "/hsp", "head", "responses", "200"))
			} else {
				b.Add(RootFile, P(J{"description": "shared", "schema": J{"type": "string", "description": "shared inner"}}, "responses", n), P(J{"$ref": "#/responses/" + n}, "paths", BasePath, "get", "responses", "411"))
			}
			b.Add(RootFile, P(J{"type": "object", "properties": J{"q": J{"type": "array", "items": J{"$ref": "#/" + kind + "/" + n + "/schema"}}}}, "definitions", "tgtHolder"+kind[:3]))
			b.use("tgtHolder" + kind[:3])
			b.HasPointer, b.HasSharedPointer = true, true
			return J{"$ref": "#/definitions/tgtHolder" + kind[:3] + "/properties/q"}
		})
		c.Pointer, c.SharedPointer = true, true
	}
	// a pointer whose target is a container (array, array of arrays, object, map, tuple) holding, one or two levels down,
	// another pointer that is expanded rather than named: into a shared parameter / response with a complex schema, or a
	// single pointer to a simple property. When the container is named first (the caller sits deeper in the document), the
	// inner pointer has moved with it.
	for _, cont := range []string{"array", "arrayOfArray", "object", "map", "tuple"} {
		for _, tgt := range []string{"parameters", "responses", "simpleProperty"} {
			if tgt == "simpleProperty" && cont != "object" && cont != "arrayOfArray" && cont != "tuple" {
				continue
			}
			if tgt == "responses" && (cont == "arrayOfArray" || cont == "object") {
				continue
			}
			cont, tgt := cont, tgt
			c := add("pointerToContainerOfPointer["+cont+","+tgt+"]", "pointer-container", func(b *BundleSpec, s int) J {
				n := "pcp" + cont[:3] + tgt[:3]
				var inner J
				switch tgt {
				case "parameters":
					b.Add(RootFile, P(J{"name": "body", "in": "body", "schema": simpleObj("sharedInner")}, "parameters", n),
						P(J{"operationId": "headPcp", "parameters": []any{J{"$ref": "#/parameters/" + n}}}, "paths", "/pcp", "head"), P(J{"description": "ok"}, "paths", "/pcp", "head", "responses", "200"))
					inner = J{"$ref": "#/parameters/" + n + "/schema"}
				case "responses":
					b.Add(RootFile, P(J{"description": "shared", "schema": simpleObj("sharedInner")}, "responses", n), P(J{"$ref": "#/responses/" + n}, "paths", BasePath, "get", "responses", "412"))
					inner = J{"$ref": "#/responses/" + n + "/schema"}
				default:
					b.Add(RootFile, P(J{"type": "object", "properties": J{"name": J{"type": "string", "description": "simple inner"}}}, "definitions", n+"Src"))
					b.use(n + "Src")
					inner = J{"$ref": "#/definitions/" + n + "Src/properties/name"}
				}
				var container J
				switch cont {
				case "array":
					container = J{"type": "array", "items": inner}
				case "arrayOfArray":
					container = J{"type": "array", "items": J{"type": "array", "items": inner}}
				case "object":
					container = J{"type": "object", "properties": J{"x": inner, "y": J{"type": "string"}}}
				case "map":
					container = J{"type": "object", "additionalProperties": inner}
				default:
					container = J{"type": "array", "items": []any{inner, J{"type": "string"}}}
				}
				b.Add(RootFile, P(J{"type": "object", "properties": J{"q": container}}, "definitions", n+"Holder"))
				b.use(n + "Holder")
				b.HasPointer = true
				if tgt != "simpleProperty" {
					b.HasSharedPointer = true
				}
				return J{"$ref": "#/definitions/" + n + "Holder/properties/q"}
			})
			c.Pointer, c.SharedPointer = true, tgt != "simpleProperty"
		}
	}
	for _, kind := range []string{"parameters", "responses"} {
		for _, cx := range []string{"simple", "complex"} {
			kind, cx := kind, cx
			c := add("pointerShared["+kind+","+cx+"]", "pointer-shared-"+cx, func(b *BundleSpec, s int) J {
				sub := J{"type": "string", "description": "shared ptr target"}
				if cx == "complex" {
					sub = simpleObj("spt")
				}
				n := "shp" + cx
				if kind == "parameters" {
					b.Add(RootFile, P(J{"name": "body", "in": "body", "schema": sub}, "parameters", n),
						P(J{"operationId": "headP", "parameters": []any{J{"$ref": "#/parameters/" + n}}}, "paths", BasePath, "head"), P(J{"description": "ok"}, "paths", BasePath, "head", "responses", "200"))
				} else {
					b.Add(RootFile, P(J{"description": "shared", "schema": sub}, "responses", n), P(J{"$ref": "#/responses/" + n}, "paths", BasePath, "get", "responses", "410"))
				}
				b.HasPointer, b.HasSharedPointer = true, true
				return J{"$ref": "#/" + kind + "/" + n + "/schema"}
			})
			c.Pointer, c.SharedPointer = true, true
		}
	}
	// imports colliding by name with a root definition (imported definition is $ref-free)
	add("refAuxRich", "ref-aux", func(b *BundleSpec, s int) J {
		b.Add(AuxA, P(J{"type": "object", "title": "AuxRich", "description": "rich aux", "required": []any{"n"}, "x-aux": J{"deep": []any{J{"a": 1}}}, "example": J{"n": "x"}, "additionalProperties": false,
			"properties": J{"n": J{"type": "string", "x-go-name": "N", "maxLength": 5, "pattern": "^[a-z]+$", "enum": []any{"x", "y"}}, "inner": J{"type": "object", "x-inner": true, "properties": J{"v": J{"type": "number", "default": 1.5}}},
				"codes": J{"type": "array", "items": J{"type": "string", "pattern": "^[A-Z]{2}$"}}}}, "definitions", "auxRich"))
		return J{"$ref": AuxA + "#/definitions/auxRich"}
	}).Aux = true
	for _, body := range []string{"complex", "simple"} {
		body := body
		add("collidingImport[threeAtOnce,"+body+"]", "collide", func(b *BundleSpec, s int) J {
			// a root definition and the same name exported by all three auxiliary documents: four homonyms alive at once
			mk := func(tag string) J {
				if body == "simple" {
					return J{"type": "string", "description": tag}
				}
				return simpleObj(tag)
			}
			b.Add(RootFile, P(simpleObj("rootQuad"), "definitions", "quad"))
			b.use("quad")
			b.Add(AuxA, P(mk("quadA"), "definitions", "quad"))
			b.Add(AuxB, P(mk("quadB"), "definitions", "quad"))
			b.Add(AuxC, P(mk("quadC"), "definitions", "quad"))
			return J{"type": "object", "properties": J{"a": J{"$ref": AuxA + "#/definitions/quad"}, "b": J{"$ref": AuxB + "#/definitions/quad"}, "c": J{"$ref": AuxC + "#/definitions/quad"},
				"a2": J{"$ref": AuxA + "#/definitions/quad"}}}
		}).Aux = true
	}
	// keyword-like names: a property / definition named like a keyword of the schema or of the document
	for _, kw := range []string{"definitions", "properties", "items", "paths", "schema", "allOf", "additionalProperties", "parameters", "responses"} {
		kw := kw
		add("keywordNamedProperty["+kw+"]", "inline-names", func(b *BundleSpec, s int) J {
			return J{"type": "object", "properties": J{kw: J{"type": "array", "items": simpleObj("kwItem")}, "other": J{"type": "object", "additionalProperties": simpleObj("kwMap")}}}
		})
		add("keywordNamedDefinition["+kw+"]", "ref-local-names", func(b *BundleSpec, s int) J {
			b.Add(RootFile, P(J{"type": "object", "properties": J{"inner": simpleObj("kwInner")}}, "definitions", kw))
			return LocalRef(kw)
		})
	}
	for _, v := range []struct{ label, rootName, auxName string; two bool; body string }{
		{"sameName", "thing", "thing", false, "complex"}, {"caseDifferent", "thing", "Thing", false, "complex"}, {"twoAtOnce", "thing", "thing", true, "complex"},
		{"sameNameSimple", "thing", "thing", false, "simple"}, {"caseDifferentSimple", "Thing", "thing", false, "simple"},
	} {
		v := v
		add("collidingImport["+v.label+"]", "collide", func(b *BundleSpec, s int) J {
			body := func(tag string) J {
				if v.body == "simple" {
					return J{"type": "string", "description": tag}
				}
				return simpleObj(tag)
			}
			b.Add(RootFile, P(simpleObj("rootThing"), "definitions", v.rootName))
			b.use(v.rootName)
			b.Add(AuxA, P(body("auxThing"), "definitions", v.auxName))
			if v.two {
				b.Add(AuxC, P(body("auxThingC"), "definitions", v.auxName))
				b.Add(RootFile, P(J{"description": "second import", "schema": J{"$ref": AuxC + "#/definitions/" + v.auxName}}, "paths", BasePath, "get", "responses", strconv.Itoa(420+s)))
			}
			return J{"$ref": AuxA + "#/definitions/" + v.auxName}
		}).Aux = true
	}
	return cs
}

// Feature is one element of the catalogue of G_W.
type Feature struct {
	Label string
	Class string
	Apply func(b *BundleSpec, slot int)
	// W guards
	Pointer, SharedPointer bool
}

// OtherFeatures are the non holder x content features.
func OtherFeatures(names []string) []Feature {
	var fs []Feature
	add := func(label, class string, f func(b *BundleSpec, s int)) { fs = append(fs, Feature{Label: label, Class: class, Apply: f}) }
	add("paramRef", "nonschema-ref", func(b *BundleSpec, s int) {
		b.Add(RootFile, P(J{"name": "limit", "in": "query", "type": "integer"}, "parameters", "limitParam"),
			P(J{"operationId": "optionsP", "parameters": []any{J{"$ref": "#/parameters/limitParam"}}}, "paths", BasePath, "options"), P(J{"description": "ok"}, "paths", BasePath, "options", "responses", "200"))
	})
	add("responseRef", "nonschema-ref", func(b *BundleSpec, s int) {
		b.Add(RootFile, P(J{"description": "not found", "headers": J{"X-Rate": J{"type": "integer"}}}, "responses", "notFound"),
			P(J{"$ref": "#/responses/notFound"}, "paths", BasePath, "get", "responses", "499"))
	})
	add("pathItemRef", "nonschema-ref", func(b *BundleSpec, s int) {
		b.Add(RootFile, P(J{"get": J{"operationId": "getShared", "responses": J{"200": J{"description": "ok", "schema": J{"type": "string"}}}}}, "x-pathitems", "shared"),
			P(J{"$ref": "#/x-pathitems/shared"}, "paths", "/pi"))
	})
	add("pathItemRefWithSchemas", "nonschema-ref", func(b *BundleSpec, s int) {
		// a shared path item whose operations carry inline complex schemas, a local $ref and path-level parameters
		b.Add(RootFile, P(simpleObj("piLocal"), "definitions", "piLocal"),
			P(J{"parameters": []any{J{"name": "body", "in": "body", "schema": simpleObj("piBody")}},
				"post": J{"operationId": "postShared", "responses": J{"200": J{"description": "ok", "schema": LocalRef("piLocal")}, "default": J{"description": "d", "schema": J{"type": "array", "items": simpleObj("piItem")}}}}}, "x-pathitems", "withSchemas"),
			P(J{"$ref": "#/x-pathitems/withSchemas"}, "paths", "/pis"))
	})
	add("pathItemRefWithAuxSchema", "nonschema-ref", func(b *BundleSpec, s int) {
		b.Add(AuxA, P(simpleObj("piAux"), "definitions", "piAux"))
		b.Add(RootFile, P(J{"put": J{"operationId": "putShared", "parameters": []any{J{"name": "body", "in": "body", "schema": J{"$ref": AuxA + "#/definitions/piAux"}}},
			"responses": J{"200": J{"description": "ok", "schema": J{"type": "array", "items": J{"$ref": AuxA + "#/definitions/piAux"}}}}}}, "x-pathitems", "withAux"),
			P(J{"$ref": "#/x-pathitems/withAux"}, "paths", "/pia"))
	})
	add("pathItemRefTwice", "nonschema-ref", func(b *BundleSpec, s int) {
		// the same shared path item mounted under two paths
		b.Add(RootFile, P(J{"get": J{"responses": J{"200": J{"description": "ok", "schema": simpleObj("twice")}}}}, "x-pathitems", "twice"),
			P(J{"$ref": "#/x-pathitems/twice"}, "paths", "/t1"), P(J{"$ref": "#/x-pathitems/twice"}, "paths", "/t2"))
	})
	add("paramRefWithAuxSchema", "nonschema-ref", func(b *BundleSpec, s int) {
		// shared body parameter and shared response, both used by $ref from two operations, whose schemas point into an auxiliary file
		b.Add(AuxA, P(simpleObj("shAux"), "definitions", "shAux"))
		b.Add(RootFile, P(J{"name": "body", "in": "body", "schema": J{"$ref": AuxA + "#/definitions/shAux"}}, "parameters", "shBody"),
			P(J{"description": "shared", "schema": J{"type": "array", "items": J{"$ref": AuxA + "#/definitions/shAux"}}}, "responses", "shResp"))
		for _, m := range []string{"put", "patch"} {
			b.Add(RootFile, P(J{"operationId": m + "Sh", "parameters": []any{J{"$ref": "#/parameters/shBody"}}}, "paths", "/sh", m),
				P(J{"$ref": "#/responses/shResp"}, "paths", "/sh", m, "responses", "200"))
		}
	})
	add("sharedObjectsNamedLikeKeywords", "nonschema-names", func(b *BundleSpec, s int) {
		b.Add(RootFile, P(J{"name": "body", "in": "body", "schema": simpleObj("kwSharedBody")}, "parameters", "definitions"),
			P(J{"description": "kw", "schema": J{"type": "array", "items": simpleObj("kwSharedItem")}}, "responses", "definitions"),
			P(J{"operationId": "patchKw", "parameters": []any{J{"$ref": "#/parameters/definitions"}}}, "paths", "/kw", "patch"),
			P(J{"$ref": "#/responses/definitions"}, "paths", "/kw", "patch", "responses", "200"))
	})
	add("itemsInParam", "nonschema", func(b *BundleSpec, s int) {
		b.Add(RootFile, P(J{"operationId": "headP", "parameters": []any{J{"name": "ids", "in": "query", "type": "array", "items": J{"type": "array", "items": J{"type": "string"}}}}}, "paths", BasePath, "head"),
			P(J{"description": "ok"}, "paths", BasePath, "head", "responses", "200"))
	})
	add("secondPath", "nonschema", func(b *BundleSpec, s int) {
		b.Add(RootFile, P(J{"operationId": "getOther"}, "paths", "/other path/{x}", "get"), P(J{"description": "ok", "schema": simpleObj("other")}, "paths", "/other path/{x}", "get", "responses", "200"))
	})
	add("twoPathsManglingAlike", "nonschema-names", func(b *BundleSpec, s int) {
		// two operations without operationId whose generated keys are equal (GetAB)
		for _, pt := range []string{"/a-b", "/a_b"} {
			b.Add(RootFile, P(J{"description": "ok", "schema": simpleObj("resp" + pt[2:3])}, "paths", pt, "get", "responses", "200"),
				P(J{"parameters": []any{J{"name": "body", "in": "body", "schema": simpleObj("body" + pt[2:3])}}}, "paths", pt, "get"))
		}
	})
	add("pathPrefixOfAnother", "nonschema-names", func(b *BundleSpec, s int) {
		// a path-level body parameter under /a, and operations under /ab (a path of which /a is a string prefix)
		b.Add(RootFile, P(J{"parameters": []any{J{"name": "body", "in": "body", "schema": simpleObj("shared")}}}, "paths", "/a"),
			P(J{"operationId": "getA"}, "paths", "/a", "get"), P(J{"description": "ok"}, "paths", "/a", "get", "responses", "200"),
			P(J{"operationId": "getAB"}, "paths", "/ab", "get"), P(J{"description": "ok", "schema": simpleObj("ab")}, "paths", "/ab", "get", "responses", "200"))
	})
	add("noOperationId", "nonschema", func(b *BundleSpec, s int) {
		b.Add(RootFile, P(J{"description": "ok", "schema": simpleObj("anon")}, "paths", "/anon", "put", "responses", "200"),
			P(J{"parameters": []any{J{"name": "body", "in": "body", "schema": simpleObj("anonBody")}}}, "paths", "/anon", "put"))
	})
	for _, nm := range names {
		nm := nm
		add("unusedDefinition["+nm+"]", "unused", func(b *BundleSpec, s int) { b.Add(RootFile, P(simpleObj("unused"), "definitions", nm)) })
	}
	// two created definitions competing for one generated name
	add("twoCollidingImportsSameGeneratedName", "collide-names", func(b *BundleSpec, s int) {
		b.Add(RootFile, P(simpleObj("rootA"), "definitions", "thingA"), P(simpleObj("rootB"), "definitions", "thingB"),
			P(J{"type": "object", "properties": J{"home_address": J{"$ref": AuxA + "#/definitions/thingA"}}}, "definitions", "user"),
			P(J{"type": "object", "properties": J{"address": J{"$ref": AuxA + "#/definitions/thingB"}}}, "definitions", "user_home"))
		b.Add(AuxA, P(simpleObj("auxA"), "definitions", "thingA"), P(simpleObj("auxB"), "definitions", "thingB"))
		b.use("thingA")
		b.use("thingB")
		b.use("user")
		b.use("user_home")
	})
	add("twoDefsCaseDifferentWithInline", "collide-names", func(b *BundleSpec, s int) {
		// two definitions whose names differ only by letter case, each holding an inline complex schema under the same property:
		// the generated names of the two inline schemas are equal up to case
		b.Add(RootFile, P(J{"type": "object", "properties": J{"data": simpleObj("upper")}}, "definitions", "Widget"),
			P(J{"type": "object", "properties": J{"data": simpleObj("lower")}}, "definitions", "widget"))
		b.use("Widget")
		b.use("widget")
	})
	add("aliasOfNestedCollidingImport", "collide", func(b *BundleSpec, s int) {
		// the colliding import holds nested complex schemas; its topmost referrer is a top-level alias (a single $ref)
		b.Add(RootFile, P(simpleObj("rootWidget"), "definitions", "widgetx"), P(J{"$ref": AuxA + "#/definitions/widgetx"}, "definitions", "aliasNested"))
		b.Add(AuxA, P(J{"type": "object", "properties": J{"owner": J{"type": "object", "properties": J{"address": simpleObj("nestedAddr")}}, "parts": J{"type": "array", "items": []any{simpleObj("part0"), J{"type": "string"}}}}}, "definitions", "widgetx"))
		b.use("widgetx")
		b.use("aliasNested")
	})
	add("aliasOfCollidingImportManyReferrers", "collide", func(b *BundleSpec, s int) {
		// a top-level alias of a colliding import plus referrers at several depths: inside an inline object of a response,
		// inside other definitions, under array items
		ref := J{"$ref": AuxA + "#/definitions/thingy"}
		b.Add(RootFile, P(simpleObj("rootThingy"), "definitions", "thingy"), P(ref, "definitions", "aliasMany"),
			P(J{"type": "object", "properties": J{"t": ref}}, "definitions", "zUser"), P(J{"type": "array", "items": ref}, "definitions", "mList"),
			P(J{"description": "inline referrer", "schema": J{"type": "object", "properties": J{"a": ref, "b": J{"type": "string"}}}}, "paths", BasePath, "get", "responses", "431"))
		b.Add(AuxA, P(simpleObj("auxThingy"), "definitions", "thingy"))
		b.use("thingy")
		b.use("zUser")
		b.use("mList")
	})
	add("collidingImportWhosePointerNameCollides", "collide-names", func(b *BundleSpec, s int) {
		// a colliding import with two nested referrers; re-inlining it into the first one leaves the second with a pointer whose
		// generated name exists already: three rounds of conflict resolution are needed
		ref := J{"$ref": AuxA + "#/definitions/cthing"}
		b.Add(RootFile, P(simpleObj("rootCthing"), "definitions", "cthing"), P(simpleObj("preAX"), "definitions", "aHolderX"),
			P(J{"type": "object", "properties": J{"x": ref}}, "definitions", "aHolder"), P(J{"type": "object", "properties": J{"y": ref}}, "definitions", "bHolder"))
		b.Add(AuxA, P(simpleObj("auxCthing"), "definitions", "cthing"))
		for _, n := range []string{"cthing", "aHolderX", "aHolder", "bHolder"} {
			b.use(n)
		}
	})
	add("unusedAliasOfCollidingImport", "collide", func(b *BundleSpec, s int) {
		// a top-level alias of a colliding import that nothing refers to, next to a second referrer of the same import
		b.Add(RootFile, P(simpleObj("rootGadget"), "definitions", "gadget"), P(J{"$ref": AuxA + "#/definitions/gadget"}, "definitions", "alias"),
			P(J{"description": "second referrer", "schema": J{"type": "object", "properties": J{"g": J{"$ref": AuxA + "#/definitions/gadget"}}}}, "paths", BasePath, "get", "responses", "430"))
		b.Add(AuxA, P(simpleObj("auxGadget"), "definitions", "gadget"))
		b.use("gadget")
	})
	add("deepGeneratedNameCollision", "collide-names", func(b *BundleSpec, s int) {
		// three inline levels under a definition; only names generated for the inner levels exist already (exactly, and up to case)
		b.Add(RootFile, P(J{"type": "object", "properties": J{"owner": J{"type": "object", "properties": J{"address": J{"type": "object", "properties": J{"geo": simpleObj("geo")}}}}}}, "definitions", "animal"),
			P(simpleObj("preAddr"), "definitions", "animalOwnerAddress"), P(simpleObj("preGeo"), "definitions", "AnimalOwnerAddressGeo"))
		b.use("animal")
		b.use("animalOwnerAddress")
		b.use("AnimalOwnerAddressGeo")
	})
	add("threeSchemasOneGeneratedNameWithPendingImport", "collide-names", func(b *BundleSpec, s int) {
		// a definition and two pointer targets compete for one generated name (name, nameOAIGen, nameOAIGen1); the third one
		// holds the $ref to a colliding ($ref-free) import which is itself pending conflict resolution
		b.Add(RootFile, P(simpleObj("rootAddress"), "definitions", "address"), P(simpleObj("legacy"), "definitions", "OrderItemDetail"),
			P(J{"type": "object", "properties": J{"item_detail": simpleObj("sku")}}, "definitions", "order"),
			P(J{"type": "object", "properties": J{"detail": J{"type": "object", "properties": J{"shipTo": J{"$ref": AuxA + "#/definitions/address"}}}}}, "definitions", "order_item"),
			P(J{"type": "object", "properties": J{"first": J{"$ref": "#/definitions/order/properties/item_detail"}}}, "definitions", "basket"),
			P(J{"type": "object", "properties": J{"second": J{"$ref": "#/definitions/order_item/properties/detail"}}}, "definitions", "cart"))
		b.Add(AuxA, P(simpleObj("auxAddress"), "definitions", "address"))
		for _, n := range []string{"address", "OrderItemDetail", "order", "order_item", "basket", "cart"} {
			b.use(n)
		}
	})
	for _, cx := range []string{"simple", "complex"} {
		cx := cx
		add("collidingImportTwoReferrersInInlineWhoseNameIsTaken["+cx+"]", "collide-names", func(b *BundleSpec, s int) {
			// one colliding import with two referrers inside an inline schema; the name generated for that inline schema
			// exists already: the inline schema becomes an OAIGen definition itself, next to the OAIGen import it holds
			var aux J = J{"type": "string", "description": "auxKit"}
			if cx == "complex" {
				aux = simpleObj("auxKit")
			}
			ref := J{"$ref": AuxA + "#/definitions/kit"}
			b.Add(RootFile, P(simpleObj("rootKit"), "definitions", "kit"), P(simpleObj("pre"), "definitions", "kitHolderP"),
				P(J{"type": "object", "properties": J{"p": J{"type": "object", "properties": J{"a": ref, "a2": ref}}, "q": J{"type": "string"}}}, "definitions", "kitHolder"))
			b.Add(AuxA, P(aux, "definitions", "kit"))
			for _, n := range []string{"kit", "kitHolderP", "kitHolder"} {
				b.use(n)
			}
		})
	}
	for _, cx := range []string{"simple", "complex"} {
		cx := cx
		add("collidingImportReferrersAtTwoDepthsOfTakenInlines["+cx+"]", "collide-names", func(b *BundleSpec, s int) {
			// three referrers of one colliding import at two depths of an inline schema; the names generated for both inline
			// levels exist already: two nested OAIGen definitions hold the parents of a third one
			var aux J = J{"type": "string", "description": "auxRig"}
			if cx == "complex" {
				aux = simpleObj("auxRig")
			}
			ref := J{"$ref": AuxA + "#/definitions/rig"}
			b.Add(RootFile, P(simpleObj("rootRig"), "definitions", "rig"), P(simpleObj("pre"), "definitions", "rigHolderP"), P(simpleObj("pre2"), "definitions", "rigHolderPIn"),
				P(J{"type": "object", "properties": J{"p": J{"type": "object", "properties": J{"a": ref, "in": J{"type": "object", "properties": J{"b": ref, "b2": ref}}}}}}, "definitions", "rigHolder"))
			b.Add(AuxA, P(aux, "definitions", "rig"))
			for _, n := range []string{"rig", "rigHolderP", "rigHolderPIn", "rigHolder"} {
				b.use(n)
			}
		})
	}
	// more arrangements of referrers of colliding imports inside inline schemas whose generated names are taken
	for _, cx := range []string{"simple", "complex"} {
		cx := cx
		auxBody := func(tag string) J {
			if cx == "complex" {
				return simpleObj(tag)
			}
			return J{"type": "string", "description": tag}
		}
		add("takenInlines[twoImports,"+cx+"]", "collide-names", func(b *BundleSpec, s int) {
			ra, rb := J{"$ref": AuxA + "#/definitions/cog"}, J{"$ref": AuxB + "#/definitions/cog"}
			b.Add(RootFile, P(simpleObj("rootCog"), "definitions", "cog"), P(simpleObj("pre"), "definitions", "cogHolderP"),
				P(J{"type": "object", "properties": J{"p": J{"type": "object", "properties": J{"a": ra, "a2": ra, "b": rb, "b2": rb}}}}, "definitions", "cogHolder"))
			b.Add(AuxA, P(auxBody("auxCogA"), "definitions", "cog"))
			b.Add(AuxB, P(auxBody("auxCogB"), "definitions", "cog"))
			for _, n := range []string{"cog", "cogHolderP", "cogHolder"} {
				b.use(n)
			}
		})
		add("takenInlines[threeLevels,"+cx+"]", "collide-names", func(b *BundleSpec, s int) {
			r := J{"$ref": AuxA + "#/definitions/cog"}
			b.Add(RootFile, P(simpleObj("rootCog"), "definitions", "cog"), P(simpleObj("pre"), "definitions", "cogHolderP"), P(simpleObj("pre2"), "definitions", "cogHolderPIn"), P(simpleObj("pre3"), "definitions", "cogHolderPInIn"),
				P(J{"type": "object", "properties": J{"p": J{"type": "object", "properties": J{"a": r, "in": J{"type": "object", "properties": J{"b": r, "in": J{"type": "object", "properties": J{"c": r, "c2": r}}}}}}}}, "definitions", "cogHolder"))
			b.Add(AuxA, P(auxBody("auxCog"), "definitions", "cog"))
			for _, n := range []string{"cog", "cogHolderP", "cogHolderPIn", "cogHolderPInIn", "cogHolder"} {
				b.use(n)
			}
		})
		add("takenInlines[siblings,"+cx+"]", "collide-names", func(b *BundleSpec, s int) {
			r := J{"$ref": AuxA + "#/definitions/cog"}
			b.Add(RootFile, P(simpleObj("rootCog"), "definitions", "cog"), P(simpleObj("pre"), "definitions", "cogHolderP"), P(simpleObj("pre2"), "definitions", "cogHolderQ"),
				P(J{"type": "object", "properties": J{"p": J{"type": "object", "properties": J{"a": r}}, "q": J{"type": "object", "properties": J{"b": r, "b2": r}}}}, "definitions", "cogHolder"))
			b.Add(AuxA, P(auxBody("auxCog"), "definitions", "cog"))
			for _, n := range []string{"cog", "cogHolderP", "cogHolderQ", "cogHolder"} {
				b.use(n)
			}
		})
		add("takenInlines[underResponse,"+cx+"]", "collide-names", func(b *BundleSpec, s int) {
			r := J{"$ref": AuxA + "#/definitions/cog"}
			b.Add(RootFile, P(simpleObj("rootCog"), "definitions", "cog"), P(simpleObj("pre"), "definitions", "getPCreatedBody"), P(simpleObj("pre2"), "definitions", "getPCreatedBodyIn"),
				P(J{"description": "inline with taken names", "schema": J{"type": "object", "properties": J{"a": r, "in": J{"type": "object", "properties": J{"b": r, "b2": r}}}}}, "paths", BasePath, "get", "responses", "201"))
			b.Add(AuxA, P(auxBody("auxCog"), "definitions", "cog"))
			for _, n := range []string{"cog", "getPCreatedBody", "getPCreatedBodyIn"} {
				b.use(n)
			}
		})
	}
	add("twoInlineSameGeneratedName", "collide-names", func(b *BundleSpec, s int) {
		b.Add(RootFile, P(J{"type": "object", "properties": J{"home_address": simpleObj("inl1")}}, "definitions", "member"),
			P(J{"type": "object", "properties": J{"address": simpleObj("inl2")}}, "definitions", "member_home"))
		b.use("member")
		b.use("member_home")
	})
	add("unusedChain2", "unused-chain", func(b *BundleSpec, s int) {
		b.Add(RootFile, P(J{"type": "object", "properties": J{"n": LocalRef("u2")}}, "definitions", "u1"), P(simpleObj("u2"), "definitions", "u2"))
	})
	add("unusedChain3", "unused-chain", func(b *BundleSpec, s int) {
		b.Add(RootFile, P(LocalRef("v2"), "definitions", "v1"), P(J{"type": "array", "items": LocalRef("v3")}, "definitions", "v2"), P(simpleObj("v3"), "definitions", "v3"))
	})
	add("unusedCycle", "unused-chain", func(b *BundleSpec, s int) {
		b.Add(RootFile, P(J{"type": "object", "properties": J{"n": LocalRef("w2")}}, "definitions", "w1"), P(J{"type": "object", "properties": J{"n": LocalRef("w1")}}, "definitions", "w2"))
	})
	for _, nm := range []string{"getPOKBody", "GetPOKBody", "propP", "prop0P", "Prop0P", "thingOAIGen", "ThingOAIGen", "getPCreatedBody", "postPParamsBody", "nodeNext"} {
		nm := nm
		add("preNamed["+nm+"]", "prenamed", func(b *BundleSpec, s int) {
			b.Add(RootFile, P(simpleObj("pre"), "definitions", nm))
			b.use(nm)
		})
	}
	return fs
}

// Catalogue builds the feature catalogue: holders x contents + other features.
// reduced selects one representative per holder class x content class.
func Catalogue(names []string, holderFilter func(h string) bool, contentFilter func(c Content) bool) []Feature {
	var fs []Feature
	for _, h := range Holders() {
		if holderFilter != nil && !holderFilter(h.Label) {
			continue
		}
		for _, c := range Contents(names) {
			if contentFilter != nil && !contentFilter(c) {
				continue
			}
			h, c := h, c
			fs = append(fs, Feature{Label: h.Label + "<-" + c.Label, Class: h.Label + "/" + c.Class, Pointer: c.Pointer, SharedPointer: c.SharedPointer,
				Apply: func(b *BundleSpec, slot int) { h.Put(b, slot, c.Make(b, slot)) }})
		}
	}
	return fs
}

// Describe a list of features.
func Describe(fs []Feature, idx []int) []string {
	out := make([]string, len(idx))
	for i, j := range idx {
		out[i] = fs[j].Label
	}
	return out
}

var _ = fmt.Sprint

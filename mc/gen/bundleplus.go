package gen

import "strconv"

// PlusContents are the contents of the wider class W+ (only C09's oracle applies to bundles using them).
func PlusContents() []Content {
	var cs []Content
	add := func(label, class string, mk func(b *BundleSpec, slot int) J) {
		cs = append(cs, Content{Label: label, Class: class, Make: mk, Pointer: true})
	}
	ptrTo := func(label, ref string, side func(b *BundleSpec)) {
		add("plusPointer["+label+"]", "plus-pointer", func(b *BundleSpec, s int) J {
			if side != nil {
				side(b)
			}
			b.HasPointer = true
			return J{"$ref": ref}
		})
	}
	// anonymous pointers to arbitrary positions
	ptrTo("intoOperationResponse", "#/paths/~1p~1%7Bid%7D/get/responses/299/schema", func(b *BundleSpec) {
		b.Add(RootFile, P(J{"description": "target", "schema": simpleObj("opTarget")}, "paths", BasePath, "get", "responses", "299"))
	})
	ptrTo("intoOperationParam", "#/paths/~1tp/post/parameters/0/schema/properties/tup/additionalItems", func(b *BundleSpec) {
		b.Add(RootFile, P(J{"operationId": "postTP", "parameters": []any{J{"name": "body", "in": "body", "schema": J{"type": "object", "properties": J{"tup": J{"type": "array", "items": []any{J{"type": "string"}}, "additionalItems": simpleObj("deepExtra")}}}}}}, "paths", "/tp", "post"),
			P(J{"description": "ok"}, "paths", "/tp", "post", "responses", "200"))
	})
	ptrTo("intoNestedInline", "#/definitions/deepHolder/properties/a/properties/b", func(b *BundleSpec) {
		b.Add(RootFile, P(J{"type": "object", "properties": J{"a": J{"type": "object", "properties": J{"b": simpleObj("deepB")}}}}, "definitions", "deepHolder"))
	})
	ptrTo("intoNestedArrayItems", "#/definitions/deepArr/items/items", func(b *BundleSpec) {
		b.Add(RootFile, P(J{"type": "array", "items": J{"type": "array", "items": simpleObj("deepItems")}}, "definitions", "deepArr"))
	})
	ptrTo("staleAdditionalItems", "#/definitions/noExtra/additionalItems", func(b *BundleSpec) {
		b.Add(RootFile, P(J{"type": "array", "items": []any{J{"type": "string"}}}, "definitions", "noExtra"))
	})
	ptrTo("booleanAdditionalItems", "#/definitions/boolExtra/additionalItems", func(b *BundleSpec) {
		b.Add(RootFile, P(J{"type": "array", "items": []any{J{"type": "string"}}, "additionalItems": true}, "definitions", "boolExtra"))
	})
	ptrTo("booleanAdditionalProperties", "#/definitions/boolProps/additionalProperties", func(b *BundleSpec) {
		b.Add(RootFile, P(J{"type": "object", "additionalProperties": true}, "definitions", "boolProps"))
	})
	ptrTo("tupleItemsHolder", "#/definitions/pair/items", func(b *BundleSpec) {
		b.Add(RootFile, P(J{"type": "array", "items": []any{J{"type": "string"}, simpleObj("second")}}, "definitions", "pair"))
	})
	ptrTo("propertiesHolder", "#/definitions/propsHolder/properties", func(b *BundleSpec) {
		b.Add(RootFile, P(simpleObj("ph"), "definitions", "propsHolder"))
	})
	ptrTo("nonSchema", "#/info", nil)
	ptrTo("sharedResponseObject", "#/responses/wholeResp", func(b *BundleSpec) {
		b.Add(RootFile, P(J{"description": "a response used as a schema", "schema": simpleObj("wr")}, "responses", "wholeResp"))
	})
	ptrTo("sharedParameterObject", "#/parameters/wholeParam", func(b *BundleSpec) {
		b.Add(RootFile, P(J{"name": "wp", "in": "query", "type": "string"}, "parameters", "wholeParam"))
	})
	ptrTo("absoluteSelfFile", "/vfs/root.json#/definitions/absTarget", func(b *BundleSpec) {
		b.Add(RootFile, P(simpleObj("abs"), "definitions", "absTarget"))
	})
	ptrTo("absoluteAuxFile", "/vfs/sub/a.json#/definitions/absAux", func(b *BundleSpec) {
		b.Add(AuxA, P(simpleObj("absAux"), "definitions", "absAux"))
	})
	ptrTo("fileSchemeSelf", "file:///vfs/root.json#/definitions/fsTarget", func(b *BundleSpec) {
		b.Add(RootFile, P(simpleObj("fs"), "definitions", "fsTarget"))
	})
	ptrTo("nestedCollidingImports", AuxA+"#/definitions/thing", func(b *BundleSpec) {
		b.Add(RootFile, P(simpleObj("rootThing"), "definitions", "thing"), P(simpleObj("rootOther"), "definitions", "other"))
		b.Add(AuxA, P(J{"type": "object", "properties": J{"o": J{"$ref": "#/definitions/other"}, "o2": J{"$ref": "#/definitions/other"}}}, "definitions", "thing"), P(simpleObj("auxOther"), "definitions", "other"))
	})
	ptrTo("wholeRoot", "#", nil)
	ptrTo("wholeRootSlash", "#/", nil)
	ptrTo("definitionsSection", "#/definitions", func(b *BundleSpec) { b.Add(RootFile, P(simpleObj("any"), "definitions", "anyDef")) })
	// pointers whose target is itself a pointer: chain and cycle
	ptrTo("chain", "#/definitions/chainA/properties/x", func(b *BundleSpec) {
		b.Add(RootFile, P(J{"type": "object", "properties": J{"x": J{"$ref": "#/definitions/chainB/properties/y"}}}, "definitions", "chainA"),
			P(J{"type": "object", "properties": J{"y": simpleObj("chainEnd")}}, "definitions", "chainB"))
	})
	ptrTo("cycle", "#/definitions/cycA/properties/x", func(b *BundleSpec) {
		b.Add(RootFile, P(J{"type": "object", "properties": J{"x": J{"$ref": "#/definitions/cycB/properties/y"}}}, "definitions", "cycA"),
			P(J{"type": "object", "properties": J{"y": J{"$ref": "#/definitions/cycA/properties/x"}}}, "definitions", "cycB"))
	})
	ptrTo("selfPointer", "#/definitions/selfP/properties/x", func(b *BundleSpec) {
		b.Add(RootFile, P(J{"type": "object", "properties": J{"x": J{"$ref": "#/definitions/selfP/properties/x"}}}, "definitions", "selfP"))
	})
	ptrTo("chain3", "#/definitions/c3A/properties/x", func(b *BundleSpec) {
		b.Add(RootFile, P(J{"type": "object", "properties": J{"x": J{"$ref": "#/definitions/c3B/properties/y"}}}, "definitions", "c3A"),
			P(J{"type": "object", "properties": J{"y": J{"$ref": "#/definitions/c3C/items"}}}, "definitions", "c3B"),
			P(J{"type": "array", "items": simpleObj("c3End")}, "definitions", "c3C"))
	})
	ptrTo("cycle3", "#/definitions/k3A/properties/x", func(b *BundleSpec) {
		b.Add(RootFile, P(J{"type": "object", "properties": J{"x": J{"$ref": "#/definitions/k3B/properties/y"}}}, "definitions", "k3A"),
			P(J{"type": "object", "properties": J{"y": J{"$ref": "#/definitions/k3C/properties/z"}}}, "definitions", "k3B"),
			P(J{"type": "object", "properties": J{"z": J{"$ref": "#/definitions/k3A/properties/x"}}}, "definitions", "k3C"))
	})
	// a tail that runs into a cycle which does not contain its first target ("rho")
	ptrTo("rhoChain", "#/definitions/rhoT/properties/t", func(b *BundleSpec) {
		b.Add(RootFile, P(J{"type": "object", "properties": J{"t": J{"$ref": "#/definitions/rhoA/properties/a"}}}, "definitions", "rhoT"),
			P(J{"type": "object", "properties": J{"a": J{"$ref": "#/definitions/rhoB/properties/b"}}}, "definitions", "rhoA"),
			P(J{"type": "object", "properties": J{"b": J{"$ref": "#/definitions/rhoA/properties/a"}}}, "definitions", "rhoB"))
	})
	// the same shapes with the pointed schemas living in a vendor extension (never visited by the analyzer itself)
	ptrTo("intoExtension", "#/x-schemas/plain", func(b *BundleSpec) {
		b.Add(RootFile, P(simpleObj("extPlain"), "x-schemas", "plain"))
	})
	ptrTo("extChain", "#/x-schemas/t", func(b *BundleSpec) {
		b.Add(RootFile, P(J{"$ref": "#/x-schemas/a"}, "x-schemas", "t"), P(J{"$ref": "#/x-schemas/end"}, "x-schemas", "a"), P(simpleObj("extEnd"), "x-schemas", "end"))
	})
	ptrTo("extCycle", "#/x-schemas/ca", func(b *BundleSpec) {
		b.Add(RootFile, P(J{"$ref": "#/x-schemas/cb"}, "x-schemas", "ca"), P(J{"$ref": "#/x-schemas/ca"}, "x-schemas", "cb"))
	})
	ptrTo("extRho", "#/x-schemas/rt", func(b *BundleSpec) {
		b.Add(RootFile, P(J{"$ref": "#/x-schemas/ra"}, "x-schemas", "rt"), P(J{"$ref": "#/x-schemas/rb"}, "x-schemas", "ra"), P(J{"$ref": "#/x-schemas/ra"}, "x-schemas", "rb"))
	})
	ptrTo("extSelf", "#/x-schemas/self", func(b *BundleSpec) {
		b.Add(RootFile, P(J{"$ref": "#/x-schemas/self"}, "x-schemas", "self"))
	})
	ptrTo("intoAuxNested", AuxA+"#/definitions/auxHolder/properties/in", func(b *BundleSpec) {
		b.Add(AuxA, P(J{"type": "object", "properties": J{"in": simpleObj("auxIn")}}, "definitions", "auxHolder"))
	})
	// names the properties exclude from W ('%', '.', '..', empty): referenced, not only declared
	for i, nm := range []string{"100%", ".", "..", "", "a%2Fb", "%41"} {
		nm := nm
		ptrTo("oddNameLocal"+strconv.Itoa(i), "#/definitions/"+EscName(nm), func(b *BundleSpec) {
			b.Add(RootFile, P(simpleObj("oddLocal"), "definitions", nm))
		})
		ptrTo("oddNameAux"+strconv.Itoa(i), AuxA+"#/definitions/"+EscName(nm), func(b *BundleSpec) {
			b.Add(AuxA, P(J{"type": "object", "properties": J{"in": simpleObj("oddAuxIn"), "self": J{"$ref": "#/definitions/" + EscName(nm)}}}, "definitions", nm))
		})
	}
	// two sibling names of which one is the URL-escaped spelling of the other: keys of the analyzer that are URL-unescaped
	// before use designate the wrong sibling
	for i, pair := range [][2]string{{"%41", "A"}, {"a%20b", "a b"}, {"x%2Fy", "x/y"}} {
		pair := pair
		add("escapedSiblingNames"+strconv.Itoa(i), "plus-names", func(b *BundleSpec, s int) J {
			b.Add(AuxA, P(simpleObj("escAux"), "definitions", "escAux"))
			return J{"type": "object", "properties": J{pair[0]: J{"$ref": AuxA + "#/definitions/escAux"}, pair[1]: J{"type": "string"}}}
		})
		add("escapedSiblingDefinitions"+strconv.Itoa(i), "plus-names", func(b *BundleSpec, s int) J {
			b.Add(RootFile, P(J{"type": "object", "properties": J{"in": simpleObj("escIn")}}, "definitions", pair[0]), P(J{"type": "string"}, "definitions", pair[1]))
			return J{"type": "object", "properties": J{"e": LocalRef(pair[0]), "p": LocalRef(pair[1])}}
		})
	}
	add("oddPropertyNames", "plus-names", func(b *BundleSpec, s int) J {
		return J{"type": "object", "properties": J{"50%": simpleObj("pct"), ".": simpleObj("dot"), "..": simpleObj("dotdot"), "": simpleObj("empty"), "a%2Fb": simpleObj("enc")}}
	})
	// a $ref next to sibling keywords that hold further $refs: the meaning of such an object is its $ref alone, the siblings
	// stay in the document; W never has siblings of a $ref
	add("refWithSiblings", "plus-siblings", func(b *BundleSpec, s int) J {
		b.Add(RootFile, P(simpleObj("sibTarget"), "definitions", "sibTarget"), P(simpleObj("sibOther"), "definitions", "sibOther"))
		b.Add(AuxA, P(simpleObj("sibAux"), "definitions", "sibAux"))
		return J{"$ref": "#/definitions/sibTarget", "description": "sibling description", "properties": J{"x": J{"$ref": AuxA + "#/definitions/sibAux"}, "y": LocalRef("sibOther"), "z": simpleObj("sibInline")},
			"allOf": []any{J{"$ref": "#/definitions/sibTarget/properties/id"}}}
	})
	add("danglingUnderSiblingOfRef", "plus-siblings", func(b *BundleSpec, s int) J {
		b.Add(RootFile, P(simpleObj("sibOk"), "definitions", "sibOk"))
		return J{"$ref": "#/definitions/sibOk", "properties": J{"p": J{"$ref": "sub/missing.json#/definitions/m"}, "q": J{"$ref": "#/definitions/nopeSibling"}}}
	})
	// dangling $refs
	ptrTo("danglingLocalDefinition", "#/definitions/nope", nil)
	ptrTo("danglingLocalPointer", "#/definitions/nope/properties/x", nil)
	ptrTo("danglingFile", "sub/missing.json#/definitions/x", nil)
	ptrTo("danglingFragment", AuxA+"#/definitions/missingInA", func(b *BundleSpec) { b.Add(AuxA, P(simpleObj("present"), "definitions", "present")) })
	ptrTo("danglingInAux", AuxA+"#/definitions/hasDangling", func(b *BundleSpec) {
		b.Add(AuxA, P(J{"type": "object", "properties": J{"d": J{"$ref": "#/definitions/notThere"}}}, "definitions", "hasDangling"))
	})
	ptrTo("danglingFileInAux", AuxA+"#/definitions/hasDanglingFile", func(b *BundleSpec) {
		b.Add(AuxA, P(J{"type": "object", "properties": J{"d": J{"$ref": "deep/none.json#/definitions/x"}}}, "definitions", "hasDanglingFile"))
	})
	// whole-document $ref
	ptrTo("wholeDocument", "sub/whole.json", func(b *BundleSpec) {
		b.Add("sub/whole.json", P(J{"type": "object", "properties": J{"w": J{"type": "string"}, "inner": J{"$ref": "a.json#/definitions/wInner"}}}))
		b.Add(AuxA, P(simpleObj("wInner"), "definitions", "wInner"))
	})
	// auxiliary documents referring back to the root
	ptrTo("auxBackToRoot", AuxA+"#/definitions/back", func(b *BundleSpec) {
		b.Add(AuxA, P(J{"type": "object", "properties": J{"r": J{"$ref": "../root.json#/definitions/rootTarget"}}}, "definitions", "back"))
		b.Add(RootFile, P(simpleObj("rootTarget"), "definitions", "rootTarget"))
	})
	ptrTo("auxBackToRootCycle", AuxA+"#/definitions/backCycle", func(b *BundleSpec) {
		b.Add(AuxA, P(J{"type": "object", "properties": J{"r": J{"$ref": "../root.json#/definitions/viaRoot"}}}, "definitions", "backCycle"))
		b.Add(RootFile, P(J{"type": "object", "properties": J{"again": J{"$ref": AuxA + "#/definitions/backCycle"}}}, "definitions", "viaRoot"))
	})
	// colliding imports that contain $refs
	ptrTo("collidingImportWithRefs", AuxA+"#/definitions/thing", func(b *BundleSpec) {
		b.Add(RootFile, P(simpleObj("rootThing"), "definitions", "thing"))
		b.Add(AuxA, P(J{"type": "object", "properties": J{"inner": J{"$ref": "#/definitions/innerThing"}, "self": J{"$ref": "#/definitions/thing"}}}, "definitions", "thing"), P(simpleObj("innerThing"), "definitions", "innerThing"))
	})
	// recursion only through items / additionalProperties, across files
	ptrTo("arrayOfItselfAux", AuxA+"#/definitions/auxArrSelf", func(b *BundleSpec) {
		b.Add(AuxA, P(J{"type": "array", "items": J{"$ref": "#/definitions/auxArrSelf"}}, "definitions", "auxArrSelf"))
	})
	ptrTo("mapOfArrayOfItself", "#/definitions/mapArrA", func(b *BundleSpec) {
		b.Add(RootFile, P(J{"type": "object", "additionalProperties": J{"$ref": "#/definitions/mapArrB"}}, "definitions", "mapArrA"),
			P(J{"type": "array", "items": J{"$ref": "#/definitions/mapArrA"}}, "definitions", "mapArrB"))
	})
	return cs
}

// PlusFeatures are non-schema features of W+.
func PlusFeatures() []Feature {
	var fs []Feature
	add := func(label string, f func(b *BundleSpec, s int)) { fs = append(fs, Feature{Label: label, Class: "plus", Apply: f, Pointer: true}) }
	add("remoteParameterRef", func(b *BundleSpec, s int) {
		b.Add(AuxA, P(J{"name": "rp", "in": "query", "type": "string"}, "parameters", "rp"))
		b.Add(RootFile, P(J{"operationId": "optionsP", "parameters": []any{J{"$ref": AuxA + "#/parameters/rp"}}}, "paths", BasePath, "options"), P(J{"description": "ok"}, "paths", BasePath, "options", "responses", "200"))
	})
	add("remoteResponseRef", func(b *BundleSpec, s int) {
		b.Add(AuxA, P(J{"description": "remote", "schema": J{"$ref": "#/definitions/rr"}}, "responses", "rr"), P(simpleObj("rr"), "definitions", "rr"))
		b.Add(RootFile, P(J{"$ref": AuxA + "#/responses/rr"}, "paths", BasePath, "get", "responses", "498"))
	})
	add("remotePathItemRef", func(b *BundleSpec, s int) {
		b.Add(AuxC, P(J{"get": J{"operationId": "remoteGet", "responses": J{"200": J{"description": "ok", "schema": J{"$ref": "#/definitions/rpi"}}}}}, "x-items", "pi"), P(simpleObj("rpi"), "definitions", "rpi"))
		b.Add(RootFile, P(J{"$ref": AuxC + "#/x-items/pi"}, "paths", "/remote"))
	})
	add("danglingParameterRef", func(b *BundleSpec, s int) {
		b.Add(RootFile, P(J{"operationId": "optionsP", "parameters": []any{J{"$ref": "#/parameters/nope"}}}, "paths", BasePath, "options"), P(J{"description": "ok"}, "paths", BasePath, "options", "responses", "200"))
	})
	add("danglingResponseRef", func(b *BundleSpec, s int) {
		b.Add(RootFile, P(J{"$ref": "sub/none.json#/responses/x"}, "paths", BasePath, "get", "responses", "497"))
	})
	add("parameterRefToNonParameter", func(b *BundleSpec, s int) {
		b.Add(RootFile, P(simpleObj("np"), "definitions", "notAParam"),
			P(J{"operationId": "optionsP", "parameters": []any{J{"$ref": "#/definitions/notAParam"}}}, "paths", BasePath, "options"), P(J{"description": "ok"}, "paths", BasePath, "options", "responses", "200"))
	})
	add("itemsRefInParam", func(b *BundleSpec, s int) {
		b.Add(RootFile, P(J{"type": "string"}, "definitions", "itemDef"),
			P(J{"operationId": "headP", "parameters": []any{J{"name": "ids", "in": "query", "type": "array", "items": J{"$ref": "#/definitions/itemDef"}}}}, "paths", BasePath, "head"), P(J{"description": "ok"}, "paths", BasePath, "head", "responses", "200"))
	})
	add("unusedDefinitionWithDanglingRef", func(b *BundleSpec, s int) {
		b.Add(RootFile, P(J{"type": "object", "properties": J{"d": J{"$ref": "#/definitions/nowhere"}}}, "definitions", "unusedDangling"))
	})
	for i, pt := range []string{"/p%/x", "/p%2Fq/{id}", "/./x", "/../y", "//", "/p%zz"} {
		pt := pt
		add("oddPath"+strconv.Itoa(i), func(b *BundleSpec, s int) {
			b.Add(RootFile, P(J{"parameters": []any{J{"name": "body", "in": "body", "schema": simpleObj("oddPathBody")}}}, "paths", pt, "post"),
				P(J{"description": "ok", "schema": J{"type": "array", "items": simpleObj("oddPathItem")}}, "paths", pt, "post", "responses", "200"),
				P(J{"parameters": []any{J{"name": "pl", "in": "body", "schema": simpleObj("oddPathLevel")}}}, "paths", pt))
		})
	}
	for i, nm := range []string{"100%", "a%2Fb", "..", "a/b", "t~x", "pet owner"} {
		nm := nm
		add("oddSharedNames"+strconv.Itoa(i), func(b *BundleSpec, s int) {
			b.Add(RootFile, P(J{"name": "body", "in": "body", "schema": simpleObj("oddSharedBody")}, "parameters", nm),
				P(J{"description": "odd shared", "schema": J{"type": "array", "items": simpleObj("oddSharedItem")}, "headers": J{"X-" + strconv.Itoa(i): J{"type": "string"}}}, "responses", nm),
				P(J{"operationId": "patchOdd", "parameters": []any{J{"$ref": "#/parameters/" + EscName(nm)}}}, "paths", "/odd", "patch"),
				P(J{"$ref": "#/responses/" + EscName(nm)}, "paths", "/odd", "patch", "responses", "200"))
		})
	}
	for i, nm := range []string{"%", ".", "..", "a%2Fb"} {
		nm := nm
		add("oddName"+strconv.Itoa(i), func(b *BundleSpec, s int) { b.Add(RootFile, P(simpleObj("odd"), "definitions", nm)) })
	}
	return fs
}

// Package gen holds the input generators: documents are described as sets of plants (JSON path +
// payload merged into the object at that path) and rendered into generic JSON.
package gen

import (
	"encoding/json"
	"reflect"
	"sort"
	"strconv"
)

// J is a JSON object.
type J = map[string]any

// Plant puts Payload (merged key by key) into the object at Path.
type Plant struct {
	Path    []string
	Payload J
}

// P is a shorthand constructor.
func P(payload J, path ...string) Plant { return Plant{Path: append([]string(nil), path...), Payload: payload} }

type node struct {
	children map[string]*node
	payload  J
	leaf     any // non-object value placed at this position (string, list, bool)
	hasLeaf  bool
}

func newNode() *node { return &node{children: map[string]*node{}} }

// Sigma is the name alphabet of C01 (one representative per character class) plus names that collide
// with generated names.
var Sigma = []string{"a", "b", "pet", "Pet", "pet owner", "ü", "a/b", "t~x", "q?", "h#", "b[0]", "{c}", "a/b c~d", "ü #?", "al~1", "petOwner", "PetOwner", "getPOKBody", "thingOAIGen", "ThingOAIGen",
	// a URL-reserved character that query-unescaping and path-unescaping treat differently (appended: SigmaCore is a prefix)
	"a+b"}

// SigmaCore is Sigma without the generated-name look-alikes.
var SigmaCore = Sigma[:15]

func isIndex(s string) bool {
	if s == "" {
		return false
	}
	for _, c := range s {
		if c < '0' || c > '9' {
			return false
		}
	}
	return true
}

// Build renders plants into a document. ok is false when two plants conflict (same key with different
// values, or a position that would have to be an object and an array at once).
func Build(plants []Plant) (doc J, ok bool) {
	root := newNode()
	for _, p := range plants {
		n := root
		for _, t := range p.Path {
			c := n.children[t]
			if c == nil {
				c = newNode()
				n.children[t] = c
			}
			n = c
		}
		if n.payload == nil {
			n.payload = J{}
		}
		for k, v := range p.Payload {
			if old, dup := n.payload[k]; dup && !reflect.DeepEqual(old, v) {
				return nil, false
			}
			n.payload[k] = v
		}
	}
	v, ok := render(root, "", 0)
	if !ok {
		return nil, false
	}
	return v.(J), true
}

var arrayParents = map[string]bool{"allOf": true, "anyOf": true, "oneOf": true, "items": true, "parameters": true}

func render(n *node, token string, depth int) (any, bool) {
	if len(n.children) == 0 {
		if n.payload == nil {
			return J{}, true
		}
		return copyJ(n.payload), true
	}
	numeric, other := 0, 0
	for k := range n.children {
		if isIndex(k) {
			numeric++
		} else {
			other++
		}
	}
	// top-level "parameters" is a map; "responses" children are status codes (numeric keys of an object)
	isArr := numeric > 0 && arrayParents[token] && !(token == "parameters" && depth == 1)
	if isArr {
		if other > 0 || len(n.payload) > 0 {
			return nil, false
		}
		max := -1
		for k := range n.children {
			i, _ := strconv.Atoi(k)
			if i > max {
				max = i
			}
		}
		out := make([]any, max+1)
		for i := range out {
			c := n.children[strconv.Itoa(i)]
			if c == nil {
				if token == "parameters" {
					out[i] = J{"name": "f" + strconv.Itoa(i), "in": "query", "type": "string"}
				} else {
					out[i] = J{}
				}
				continue
			}
			v, ok := render(c, strconv.Itoa(i), depth+1)
			if !ok {
				return nil, false
			}
			out[i] = v
		}
		return out, true
	}
	out := J{}
	for k, v := range n.payload {
		out[k] = v
	}
	keys := make([]string, 0, len(n.children))
	for k := range n.children {
		keys = append(keys, k)
	}
	sort.Strings(keys)
	for _, k := range keys {
		if _, dup := out[k]; dup {
			return nil, false
		}
		v, ok := render(n.children[k], k, depth+1)
		if !ok {
			return nil, false
		}
		out[k] = v
	}
	return out, true
}

func copyJ(m J) J {
	b, _ := json.Marshal(m)
	var out J
	_ = json.Unmarshal(b, &out)
	return out
}

// JSON serializes a value.
func JSON(v any) string {
	b, err := json.Marshal(v)
	if err != nil {
		panic(err)
	}
	return string(b)
}

// BasePath is the path template of the skeleton operation.
const BasePath = "/p/{id}"

// Skeleton returns the plants of the minimal document.
func Skeleton() []Plant {
	return []Plant{
		P(J{"swagger": "2.0"}),
		P(J{"title": "t", "version": "1"}, "info"),
		P(J{"description": "ok"}, "paths", BasePath, "get", "responses", "200"),
	}
}

// Step is one schema keyword step of a position chain.
type Step struct {
	Kw   string // properties patternProperties definitions items itemsN additionalProperties additionalItems allOf anyOf oneOf not
	Name string // for properties / patternProperties / definitions
	Idx  int    // for itemsN / allOf / anyOf / oneOf
}

// Tokens of the step.
func (s Step) Tokens() []string {
	switch s.Kw {
	case "properties", "patternProperties", "definitions":
		return []string{s.Kw, s.Name}
	case "itemsN":
		return []string{"items", strconv.Itoa(s.Idx)}
	case "allOf", "anyOf", "oneOf":
		return []string{s.Kw, strconv.Itoa(s.Idx)}
	}
	return []string{s.Kw}
}

// StepKinds is K, the schema-bearing keywords of the schema model.
var StepKinds = []string{"properties", "patternProperties", "definitions", "items", "itemsN", "additionalProperties", "additionalItems", "allOf", "anyOf", "oneOf", "not"}

// RootKinds of schema positions.
var RootKinds = []string{"definition", "sharedParam", "sharedResponse", "pathParam", "opParam", "defaultResponse", "codeResponse"}

// SchemaRoot returns the path of the schema of root kind k (instance inst, name nm where applicable, under path template pt)
// and the context plants that make the holder well-formed.
func SchemaRoot(k string, inst int, nm, pt string) ([]string, []Plant) {
	switch k {
	case "definition":
		return []string{"definitions", nm}, nil
	case "sharedParam":
		return []string{"parameters", nm, "schema"}, []Plant{P(J{"name": "body", "in": "body"}, "parameters", nm)}
	case "sharedResponse":
		return []string{"responses", nm, "schema"}, []Plant{P(J{"description": "d"}, "responses", nm)}
	case "pathParam":
		i := strconv.Itoa(inst)
		return []string{"paths", pt, "parameters", i, "schema"}, []Plant{P(J{"name": "body" + i, "in": "body"}, "paths", pt, "parameters", i)}
	case "opParam":
		i := strconv.Itoa(inst)
		return []string{"paths", pt, "post", "parameters", i, "schema"}, []Plant{
			P(J{"name": "body" + i, "in": "body"}, "paths", pt, "post", "parameters", i),
			P(J{"description": "ok"}, "paths", pt, "post", "responses", "200"),
		}
	case "defaultResponse":
		m := []string{"get", "put"}[inst%2]
		return []string{"paths", pt, m, "responses", "default", "schema"}, []Plant{P(J{"description": "d"}, "paths", pt, m, "responses", "default")}
	case "codeResponse":
		c := strconv.Itoa(200 + inst)
		return []string{"paths", pt, "get", "responses", c, "schema"}, []Plant{P(J{"description": "ok"}, "paths", pt, "get", "responses", c)}
	}
	panic("unknown root kind " + k)
}

// ChainTokens flattens a chain of steps.
func ChainTokens(chain []Step) []string {
	var t []string
	for _, s := range chain {
		t = append(t, s.Tokens()...)
	}
	return t
}
